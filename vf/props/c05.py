"""C05 — type conversions on assignment preserve the value or are rejected (thin; the rejection half is not simulation).

Enumerated cases: (source type, target type) over Bit, BitVector[n], Unsigned[n], Signed[n] with n in {1,2,3,4,7,8}, plus
int / Null / Full / bool / str literals as source, x assignment form (<<=, .next, @=, .value, ^= / .push, slice target,
array element target, if-expression merge, function-return merge, initialisation, port connection).
Oracle, exactly as the statement words it:
   accepted (must compile and preserve):  Unsigned -> equal or wider Unsigned (zero-extended), Signed -> equal or wider Signed
       (sign-extended), Unsigned -> strictly wider Signed, equal-width BitVector <-> Signed/Unsigned (bits copied), Bit <-> Bit,
       Null / Full, representable int literals
   rejected:  narrowing, Signed <-> Unsigned of equal width, width-mismatched BitVector, Bit <-> vector -- in every assignment
       form (<<=, @=, ^=, .next/.value/.push, slices and elements)
   everything else (merges, port connections, Signed -> wider Unsigned ...): either rejected or value preserving
An accepted case is simulated over ALL source values (width <= 8) in a seeded order under seeded process order; the target
must hold the represented value of the source for every one of them.
"""
from __future__ import annotations

import hashlib

from vf.core import rng
from vf.gen import render
from vf.tb import dut as dutm

PROP = "C05"
LEVEL = "exploration"
WIDTHS = [1, 2, 3, 4, 7, 8]
# "view" / "viewvar": the target is a typed view (.signed / .unsigned / .bitvector) of a signal / variable whose own type differs
FORMS = ["assign", "next", "var", "value", "push", "pushattr", "slice", "element", "ite", "ret", "port", "view", "viewvar", "itefull", "itenull", "retfull", "retnull", "always", "declvar", "declsig", "decltmp"]
DECL = {"declvar": "Variable", "declsig": "Signal", "decltmp": "cohdl.Temporary"}  # an object declared INSIDE the process with the source as its initial value
MERGE_LIT = {"itefull": "Full", "itenull": "Null", "retfull": "Full", "retnull": "Null"}  # the other branch of the merge is a literal
VIEW_ROOT = {"S": "U", "U": "S", "BV": "U"}
VIEW_ATTR = {"S": "signed", "U": "unsigned", "BV": "bitvector"}
LIT_FORMS = ["assign", "var", "push", "init", "element"]


def tstr(t):
    return "Bit" if t[0] == "Bit" else {"U": "Unsigned", "S": "Signed", "BV": "BitVector"}[t[0]] + f"[{t[1]}]"


def W(t):
    return 1 if t[0] == "Bit" else t[1]


def types():
    return [("Bit",)] + [(k, n) for k in ("U", "S", "BV") for n in WIDTHS]


def cases():
    out = []
    T = types()
    for s in T:
        for t in T:
            for f in FORMS:
                if f == "slice" and t[0] != "BV":
                    continue  # a slice target is always a BitVector of the slice width
                if f in ("view", "viewvar") and t[0] == "Bit":
                    continue
                out.append({"src": list(s), "tgt": list(t), "form": f})
    # the SOURCE taken through a typed view: of an input port, of a signal / variable constructed inside the process from
    # the port (a locally constructed object is an alias in the emitted code; the view's type decides the conversion)
    for s in T:
        if s[0] == "Bit":
            continue
        for t in T:
            for f in ("next", "var"):
                for sf in ("viewport", "localsig", "localvar", "localsigcond"):
                    out.append({"src": list(s), "tgt": list(t), "form": f, "sform": sf})
    # the SOURCE is the result of an operator (a temporary of the source type, same value: s | s) instead of a plain object
    for s in T:
        if s[0] == "Bit":
            continue
        for t in T:
            for f in ("assign", "next", "var", "ite", "ret", "itefull", "element", "always", "declvar", "declsig"):
                out.append({"src": list(s), "tgt": list(t), "form": f, "sform": "temp"})
            # ... and an operator result read through a typed view (the view's type decides the conversion)
            for f in ("assign", "next", "always"):
                out.append({"src": list(s), "tgt": list(t), "form": f, "sform": "tempview"})
    for t in T:
        for lit in ("int:0", "int:1", "int:5", "int:-1", "int:-3", "int:max", "int:max+1", "int:min", "int:min-1", "Null", "Full", "True", "str"):
            for f in LIT_FORMS:
                out.append({"src": ["lit", lit], "tgt": list(t), "form": f})
    # the SOURCE is a typed compile-time constant OBJECT (BitVector[n]("..") / Unsigned[n](v) / Signed[n](v)): the same table as for
    # run-time sources of that type (two bit patterns: top bit set / clear)
    for s in T:
        if s[0] == "Bit":
            continue
        pat = int("10" * (s[1] // 2) + "1" * (s[1] % 2), 2)
        for t in T:
            for f in ("assign", "var", "push", "init", "element", "ite", "ret", "itefull", "declvar"):
                for v in sorted({pat, pat >> 1}):
                    out.append({"src": ["const", s[0], s[1], v], "tgt": list(t), "form": f})
    # two DIFFERENT literals assigned to the same target in the two branches of an if/else (each branch must keep its own)
    for t in T:
        pairs = [("int:1", "int:0"), ("Null", "Full"), ("int:max", "int:1"), ("int:min", "int:max"), ("Full", "int:1"), ("str", "Null")] if t[0] != "Bit" else [("True", "Null"), ("Full", "Null")]
        for la, lb in pairs:
            for f in ("assign", "next", "var", "value", "push", "pushattr", "element"):
                out.append({"src": ["lit2", la, lb], "tgt": list(t), "form": f})
    return out


CASES = cases()


def lit_value(lit, t):
    """(python source text, numeric value or None)"""
    w = W(t)
    if lit.startswith("int:"):
        x = lit[4:]
        if t[0] == "S":
            mx, mn = (1 << (w - 1)) - 1, -(1 << (w - 1))
        else:
            mx, mn = (1 << w) - 1, 0
        v = {"max": mx, "max+1": mx + 1, "min": mn, "min-1": mn - 1}.get(x)
        v = int(x) if v is None else v
        return str(v), v
    if lit == "Null":
        return "Null", 0
    if lit == "Full":
        return "Full", -1
    if lit == "True":
        return "True", 1
    return '"' + "10" * (w // 2) + "1" * (w % 2) + '"', int("10" * (w // 2) + "1" * (w % 2), 2)


def expected(c):
    """accept | reject | either"""
    s, t, f = tuple(c["src"]), tuple(c["tgt"]), c["form"]
    if f in ("ite", "ret", "port") or f in MERGE_LIT:
        return "either"
    if s[0] == "lit2":
        ea = expected({"src": ["lit", s[1]], "tgt": c["tgt"], "form": "assign"})
        eb = expected({"src": ["lit", s[2]], "tgt": c["tgt"], "form": "assign"})
        return "accept" if ea == eb == "accept" else "either"
    if s[0] == "const":
        return expected({"src": [s[1], s[2]], "tgt": c["tgt"], "form": f})
    if s[0] == "lit":
        lit = s[1]
        if lit in ("Null", "Full"):
            return "accept"
        if lit.startswith("int:"):
            _, v = lit_value(lit, t)
            if t[0] == "U":
                return "accept" if 0 <= v < (1 << t[1]) else "reject"
            if t[0] == "S":
                return "accept" if -(1 << (t[1] - 1)) <= v < (1 << (t[1] - 1)) else "reject"
            return "either"
        if lit == "True":
            return "accept" if t[0] == "Bit" else "either"
        return "either"
    if s[0] == "Bit" or t[0] == "Bit":
        return "accept" if s[0] == t[0] else "reject"
    ks, ns, kt, nt = s[0], s[1], t[0], t[1]
    if ks == kt and ks in ("U", "S"):
        return "accept" if nt >= ns else "reject"
    if ks == "U" and kt == "S":
        return "accept" if nt > ns else "reject"
    if ks == "S" and kt == "U":
        return "reject" if nt <= ns else "either"
    return "accept" if ns == nt else "reject"  # any combination involving BitVector: equal widths only


def preserved(s, t, sv, tv):
    """does target pattern tv represent the same value as source pattern sv?"""
    ws, wt = W(s), W(t)

    def numeric(k, v, w):
        return v - (1 << w) if (k == "S" and v >> (w - 1)) else v

    if s[0] in ("BV", "Bit") or t[0] in ("BV", "Bit"):
        return sv == tv and ws == wt
    return numeric(s[0], sv, ws) == numeric(t[0], tv, wt)


def const_text(s):
    _, k, w, v = s
    if k == "BV":
        return f'BitVector[{w}]("{v:0{w}b}")'
    if k == "S":
        return f"Signed[{w}]({v - (1 << w) if v >> (w - 1) else v})"
    return f"Unsigned[{w}]({v})"


def render_src(c):
    s, t, f = tuple(c["src"]), tuple(c["tgt"]), c["form"]
    if s[0] == "lit2":
        return render_two_literals(c)
    lit = s[0] in ("lit", "const")
    H = ["from __future__ import annotations", "import cohdl", "from cohdl import Bit, BitVector, Unsigned, Signed, Port, Signal, Variable, Null, Full, true, false", "from cohdl import std", ""]
    src = const_text(s) if s[0] == "const" else lit_value(s[1], t)[0] if lit else "self.s"
    if f in ("ret", "retfull", "retnull"):
        H += ["def merge(c, a, b):", "    if c:", "        return a", "    return b", ""]
    if f == "port":
        H += ["class Sub(cohdl.Entity):", f"    i = Port.input({tstr(t)})", f"    x = Port.output({tstr(t)})", "    def architecture(self):", "        @std.concurrent", "        def logic():", "            self.x <<= self.i", ""]
    H += ["class E(cohdl.Entity):", "    clk = Port.input(Bit)", "    c = Port.input(Bit)"]
    sf = c.get("sform")
    pre = []
    if sf == "temp":
        H.append(f"    s = Port.input({tstr(s)})")
        src = "(self.s | self.s)"
    elif sf == "tempview":
        H.append(f"    s = Port.input({tstr((VIEW_ROOT[s[0]], s[1]))})")
        src = f"(self.s | self.s).{VIEW_ATTR[s[0]]}"
    elif sf:
        root = (VIEW_ROOT[s[0]], s[1])
        H.append(f"    s = Port.input({tstr(root)})")
        if sf == "localsigcond":
            # the local signal is initialised from an if-expression whose other alternative is a literal (the alternatives
            # are redirected into the new signal one by one)
            pre = [f"    x = Signal[{tstr(root)}](self.s if self.c else Full)"]
            src = f"x.{VIEW_ATTR[s[0]]}"
        elif sf == "viewport":
            src = f"self.s.{VIEW_ATTR[s[0]]}"
        else:
            pre = [f"    x = {'Signal' if sf == 'localsig' else 'Variable'}[{tstr(root)}](self.s)"]
            src = f"x.{VIEW_ATTR[s[0]]}"
    elif not lit:
        H.append(f"    s = Port.input({tstr(s)})")
    H.append(f"    t0 = Port.input({tstr(t)})")
    wt = W(t)
    if f == "slice":
        H.append(f"    o = Port.output(BitVector[{wt + 2}], default=Null)")
    elif f in ("push", "pushattr"):
        H.append(f"    o = Port.output({tstr(t)}, default=Null)")
    else:
        H.append(f"    o = Port.output({tstr((VIEW_ROOT[t[0]], t[1]) if f in ('view', 'viewvar') else t)})")
    H += ["", "    def architecture(self):"]
    B = []
    clk = "@std.sequential(std.Clock(self.clk))"
    if f == "assign":
        B = ["@std.concurrent", "def p():", f"    self.o <<= {src}"]
    elif f == "next":
        B = [clk, "def p():"] + pre + [f"    self.o.next = {src}"]
    elif f == "always":
        # the assignment is hoisted out of the process with cohdl.always (its temporaries become signals)
        B = [clk, "def p():", "    with cohdl.always:", f"        self.o <<= {src}"]
    elif f in DECL:
        B = [clk, "def p():"] + pre + [f"    x = {DECL[f]}[{tstr(t)}]({src})", "    self.o <<= x"]
    elif f == "var":
        B = [f"v = Variable[{tstr(t)}](Null)", clk, "def p():", "    nonlocal v"] + pre + [f"    v @= {src}", "    self.o <<= v"]
    elif f == "value":
        B = [f"v = Variable[{tstr(t)}](Null)", clk, "def p():", f"    v.value = {src}", "    self.o <<= v"]
    elif f == "push":
        B = [clk, "def p():", f"    self.o ^= {src}"]
    elif f == "pushattr":
        B = [clk, "def p():", f"    self.o.push = {src}"]
    elif f == "slice":
        B = ["@std.concurrent", "def p():", f"    self.o[{wt}:1] <<= {src}"]
    elif f == "element":
        B = [f"arr = Signal[cohdl.Array[{tstr(t)}, 2]](Null)", clk, "def p():", f"    arr[1] <<= {src}", "@std.concurrent", "def q():", "    self.o <<= arr[1]"]
    elif f == "view":
        B = ["@std.concurrent", "def p():", f"    self.o.{VIEW_ATTR[t[0]]} <<= {src}"]
    elif f == "viewvar":
        B = [f"v = Variable[{tstr((VIEW_ROOT[t[0]], t[1]))}](Null)", clk, "def p():", f"    v.{VIEW_ATTR[t[0]]}.value = {src}", "    self.o <<= v"]
    elif f == "ite":
        B = ["@std.concurrent", "def p():", f"    self.o <<= ({src} if self.c else self.t0)"]
    elif f == "ret":
        B = ["@std.concurrent", "def p():", f"    self.o <<= merge(self.c, {src}, self.t0)"]
    elif f in ("itefull", "itenull"):
        B = ["@std.concurrent", "def p():", f"    self.o <<= ({src} if self.c else {MERGE_LIT[f]})"]
    elif f in ("retfull", "retnull"):
        B = ["@std.concurrent", "def p():", f"    self.o <<= merge(self.c, {src}, {MERGE_LIT[f]})"]
    elif f == "port":
        B = [f"Sub(i={src}, x=self.o)"]
    elif f == "init":
        B = [f"x = Signal[{tstr(t)}]({src})", "@std.concurrent", "def p():", "    self.o <<= x"]
    return "\n".join(H + ["        " + l for l in B]) + "\n"


def render_two_literals(c):
    s, t, f = tuple(c["src"]), tuple(c["tgt"]), c["form"]
    la, lb = lit_value(s[1], t)[0], lit_value(s[2], t)[0]
    H = ["from __future__ import annotations", "import cohdl", "from cohdl import Bit, BitVector, Unsigned, Signed, Port, Signal, Variable, Null, Full, true, false", "from cohdl import std", "", "class E(cohdl.Entity):", "    clk = Port.input(Bit)", "    c = Port.input(Bit)", f"    t0 = Port.input({tstr(t)})"]
    H.append(f"    o = Port.output({tstr(t)}, default=Null)" if f in ("push", "pushattr") else f"    o = Port.output({tstr(t)})")
    H += ["", "    def architecture(self):"]
    clk = "@std.sequential(std.Clock(self.clk))"
    op = {"assign": "self.o <<= {x}", "next": "self.o.next = {x}", "var": "v @= {x}", "value": "v.value = {x}", "push": "self.o ^= {x}", "pushattr": "self.o.push = {x}", "element": "arr[1] <<= {x}"}[f]
    B = []
    if f in ("var", "value"):
        B.append(f"v = Variable[{tstr(t)}](Null)")
    if f == "element":
        B.append(f"arr = Signal[cohdl.Array[{tstr(t)}, 2]](Null)")
    B += [clk, "def p():"]
    if f == "var":
        B.append("    nonlocal v")
    B += ["    if self.c:", "        " + op.format(x=la), "    else:", "        " + op.format(x=lb)]
    if f in ("var", "value"):
        B.append("    self.o <<= v")
    if f == "element":
        B += ["@std.concurrent", "def q():", "    self.o <<= arr[1]"]
    return "\n".join(H + ["        " + l for l in B]) + "\n"


def lit_pattern(lit, t):
    wt = W(t)
    _, v = lit_value(lit, t)
    return (1 << wt) - 1 if lit == "Full" else v & ((1 << wt) - 1)


def simulate_two_literals(c, design, seed, idx):
    s, t, f = tuple(c["src"]), tuple(c["tgt"]), c["form"]
    rs = rng.Stream(seed, "C05", "vals", idx)
    d = dutm.Dut(design, rng.derive(seed, "C05", "order", idx), "c05")
    d.start({"c": 1, "t0": 0})
    want = {1: lit_pattern(s[1], t), 0: lit_pattern(s[2], t)}
    checked = 0
    for k in range(8):
        cv = rs.below(2) if k > 1 else k
        for _ in range(2):  # registered forms need a second edge with the same branch
            d.clock({"c": cv, "t0": 0})
            d.half()
        got = d.get("o")
        checked += 1
        if got != want[cv]:
            return "value-not-preserved", {"branch_taken": "if" if cv else "else", "literal": s[1] if cv else s[2], "expected_pattern": want[cv], "target_pattern": got, "target": tstr(t), "form": f}, checked
    pr = d.problems()
    if pr:
        return pr[0], pr[1], checked
    return "ok", {}, checked


def simulate(c, design, seed, idx):
    if c["src"][0] == "lit2":
        return simulate_two_literals(c, design, seed, idx)
    s, t, f = tuple(c["src"]), tuple(c["tgt"]), c["form"]
    rs = rng.Stream(seed, "C05", "vals", idx)
    d = dutm.Dut(design, rng.derive(seed, "C05", "order", idx), "c05")
    const = s[0] == "const"
    lit = s[0] == "lit" or const
    wt = W(t)
    if lit:
        vals = [None]
    else:
        vals = rs.permute(list(range(1 << W(s))))
    first = {"c": 1, "t0": 0}
    if not lit:
        first["s"] = vals[0]
    d.start(first)
    checked = 0
    for k, sv in enumerate(vals):
        inp = {"c": 1, "t0": rs.bits(wt)}
        if not lit:
            inp["s"] = sv
        d.clock(inp)
        d.half()
        d.clock(inp)  # registered forms (variable -> output, array element) need a second edge
        got = d.get("o")
        if got is None:
            return "undefined-target", {"source_value": sv, "raw": d.raw("o")}, checked
        if f == "slice":
            got = (got >> 1) & ((1 << wt) - 1)
        if const:
            ok = preserved((s[1], s[2]), t, s[3], got)
        elif lit:
            _, v = lit_value(s[1], t)
            if s[1] == "Full":
                want = (1 << wt) - 1
            else:
                want = v & ((1 << wt) - 1)
            ok = got == want
            if s[1].startswith("int:") and t[0] in ("U", "S"):
                num = got - (1 << wt) if (t[0] == "S" and got >> (wt - 1)) else got
                ok = num == v
        else:
            ok = preserved(s, t, sv, got)
        checked += 1
        if not ok:
            return "value-not-preserved", {"source_value": sv if not lit else (const_text(s) if const else s[1]), "target_pattern": got, "source": tstr(s) if not lit else (const_text(s) if const else s[1]), "target": tstr(t), "form": f}, checked
        d.half()
        if f in ("ite", "ret") or f in MERGE_LIT:
            # the other branch of the merge: the target's own type (t0) or a literal that fills the TARGET's width
            inp0 = dict(inp, c=0)
            d.clock(inp0)
            d.half()
            d.clock(inp0)
            got0 = d.get("o")
            want0 = inp["t0"] if f in ("ite", "ret") else ((1 << wt) - 1 if MERGE_LIT[f] == "Full" else 0)
            checked += 1
            if got0 != want0:
                return "value-not-preserved", {"branch": "else", "other_branch": "t0" if f in ("ite", "ret") else MERGE_LIT[f], "expected_pattern": want0, "target_pattern": got0, "source": tstr(s) if not lit else (const_text(s) if const else s[1]), "target": tstr(t), "form": f}, checked
            d.half()
    pr = d.problems()
    if pr:
        return pr[0], pr[1], checked
    return "ok", {}, checked


def evaluate(c, seed, idx):
    exp = expected(c)
    try:
        design = dutm.compile_design(render_src(c))
    except render.Rejected as e:
        return "rejected", None, {"reason": f"{e.exc_type}: {e.message[:90]}"}, exp, 0
    except Exception as e:
        stt, det = dutm.guarded(lambda: (_ for _ in ()).throw(e))
        if stt == "legality":
            return "accepted", "accepted-conversion-yields-ill-typed-vhdl", dict(det, case=c), exp, 0
        raise
    out = dutm.guarded(lambda: simulate(c, design, seed, idx))
    if len(out) == 2:
        if out[0] == "legality":
            # an accepted conversion whose VHDL fails a width / type rule of the elaborator is exactly what C05 forbids
            return "accepted", "accepted-conversion-yields-ill-typed-vhdl", dict(out[1], case=c), exp, 0
        return "accepted", out[0], dict(out[1], case=c), exp, 0
    st, det, n = out
    if exp == "reject":
        return "accepted", "accepted-forbidden-conversion", {"case": c, "simulated": st, **det}, exp, n
    if st != "ok":
        return "accepted", st, dict(det, case=c), exp, n
    return "accepted", None, {}, exp, n


def run_one(seed, idx, tier):
    c = CASES[idx % len(CASES)]
    outcome, vclass, det, exp, n = evaluate(c, seed, idx)
    res = {"idx": idx, "shape": hashlib.sha256(repr(sorted(c.items())).encode()).hexdigest()[:12], "case": c, "expected": exp, "outcome": outcome, "values": n}
    if outcome == "rejected":
        res.update(status="ok", reason=det["reason"], unexpected_rejection=exp == "accept")
    elif vclass:
        res.update(status="violation", vclass=vclass, detail=det, payload={"case": c, "seed": seed, "idx": idx, "source": render_src(c)})
    else:
        res["status"] = "ok"
    return res


def replay(payload):
    outcome, vclass, det, exp, n = evaluate(payload["case"], payload["seed"], payload["idx"])
    return vclass or outcome, det


def plan(tier):
    return len(CASES) * (1 if tier == "quick" else 4)


def finding_key(r):
    c = r.get("case") or (r.get("detail") or {}).get("case") or {}
    s, t = c.get("src"), c.get("tgt")
    if not s:
        return None

    def cls(a, b):
        if a[0] == "lit":
            return "literal " + a[1]
        if a[0] == "lit2":
            return "two literals"
        if a[0] == "const":
            return "constant " + cls(a[1:3], b)
        rel = "equal" if W(tuple(a)) == W(tuple(b)) else ("narrower" if W(tuple(a)) < W(tuple(b)) else "wider")
        return f"{a[0]}->{b[0]}:{rel}-source"

    return f"C05:{r.get('vclass')}:{c.get('form')}:{cls(s, t)}" + (":" + c["sform"] if c.get("sform") else "")


ASSUMPTIONS = [
    "thin property: the accept/reject half is decided at compile time (plain enumeration); the simulator executes every accepted conversion over all source values under seeded process order",
    "expectation table written from the statement; forms it does not list (merges, port connections) and pairs it does not list (Signed -> wider Unsigned, literals into BitVector) are 'either rejected or value preserving'",
    "an unexpected rejection of an accept-case is counted, not flagged",
]


def evidence(results, tier):
    results = [r for r in results if "expected" in r]
    by = {}
    for r in results:
        k = f"{r['expected']}->{r['outcome']}" + ("(violation)" if r["status"] == "violation" else "")
        by[k] = by.get(k, 0) + 1
    forms = {}
    for r in results:
        if r["outcome"] == "accepted":
            forms[r["case"]["form"]] = forms.get(r["case"]["form"], 0) + 1
    unexp = {}
    for r in results:
        if r.get("unexpected_rejection"):
            k = f"{r['case']['form']}: {r['reason'][:70]}"
            unexp[k] = unexp.get(k, 0) + 1
    nontriv = {r["shape"] for r in results if (r["outcome"] == "accepted" and r["values"] >= 2) or (r["outcome"] == "rejected" and r["expected"] == "reject")}
    samples = [{"case": r["case"], "expected": r["expected"], "outcome": r["outcome"], "source_values_simulated": r["values"]} for r in results if r["case"]["form"] == "var" and r["case"]["src"] == ["U", 3] and r["case"]["tgt"] in (["S", 4], ["S", 3])]
    return {
        "evaluations": len(results),
        "distinct_nontrivial": len(nontriv),
        "rule": "one evaluation = one (source type, target type, assignment form) case of %d enumerated cases, compiled by the real compiler; reject-cases must be rejected, accepted cases are simulated over all source values; "
        "distinct = distinct cases; non-trivial = accepted with >= 2 source values simulated, or correctly rejected" % len(CASES),
        "samples": samples[:3] or [{"note": "none"}],
        "cases": len(CASES),
        "outcome_matrix(expected->observed)": by,
        "accepted_by_form": forms,
        "source_values_simulated": sum(r["values"] for r in results),
        "unexpected_rejections": dict(sorted(unexp.items(), key=lambda kv: -kv[1])[:12]),
        "real_components": ["cohdl compiler (_assign, format_cast, port checks)", "emitted VHDL"],
        "model_components": ["VSIM", "conversion matrix of the statement", "value-preservation predicate"],
    }
