"""C06 — every accepted design yields legal, well-typed, self-consistent VHDL.

Decided by VSIM's front end acting as a strict reference elaborator (DESIGN 3.4: every rule names its LRM clause) plus the
dynamic sensitivity monitor.  Two workloads:

  names      designs whose user-chosen names (entity, sub-entity, ports, signals by Python variable and by name=, variables,
             context functions / process labels, a coroutine (state type + state signal), a temporary) are drawn from an
             adversarial pool: VHDL reserved words in any case, names differing only in case, names CoHDL generates itself,
             predefined names the emitted text relies on, underscore-decorated and digit-leading names, names equal up to
             the numeric suffix of the uniquifier, additional_reserved_names
  piggyback  a sample of the designs of every other workload (coroutines, sequential/concurrent contexts, reset designs,
             std wrappers of C14-C16, the accepted driver placements of C07): the legality invariant is on for all of them;
             unclocked contexts are simulated with single-input-change stimulus for the sensitivity monitor

Oracle: the LRM rules of the elaborator.  A construct that is legal VHDL but outside VSIM's subset is a harness limitation
(exit 2), never a violation.
"""
from __future__ import annotations

import hashlib
import keyword
import re

from vf.core import rng
from vf.gen import render
from vf.tb import dut as dutm
from vf.vsim import elab
from vf.vsim.parse import Unsupported, VhdlError

PROP = "C06"
LEVEL = "exploration"

RESERVED = "abs access after alias all and architecture array assert attribute begin block body buffer bus case component configuration constant disconnect downto else elsif end entity exit file for function generate generic group guarded if impure in inertial inout is label library linkage literal loop map mod nand new next nor not null of on open or others out package port postponed procedure process pure range record register reject rem report return rol ror select severity signal shared sla sll sra srl subtype then to transport type unaffected units until use variable wait when while with xnor xor".split()
PREDEF = "std_logic std_logic_vector std_ulogic unsigned signed resize to_integer to_unsigned to_signed rising_edge falling_edge shift_left shift_right boolean integer natural positive true false ieee work numeric_std std_logic_1164 cohdl_bool_to_std_logic bit bit_vector character string time now std".split()
GENERATED = "temp temp1 temp2 temp3 sig sig1 var var1 proc proc1 concurrent concurrent1 inst inst1 array_type array_type1 state_0 state_1 inp arch".split()
CASEV = ["Data", "data", "DATA", "dAtA", "Sig", "SIG", "Temp", "TEMP", "Proc", "Buffer_q", "BUFFER_Q", "Temp1", "TEMP1"]
UNDERSCORE = ["_x", "x_", "a__b", "__y", "z__", "_", "q_1_"]
WEIRD_STR = ["1abc", "a b", "a-b", "a.b", "", "é", "a$"]
BENIGN = ["alpha", "beta", "gamma", "delta", "eps", "zeta", "eta", "theta", "iota", "kappa", "lam", "mu", "nu", "xi", "omi", "rho", "sigma", "tau", "ups", "phi"]


def py_ok(n):
    return n.isidentifier() and not keyword.iskeyword(n) and n not in ("self", "cohdl", "std", "Bit", "Unsigned", "Port", "Signal", "Variable", "Null", "true", "false")


POS_PY = ["ENT", "SUB", "i1", "i2", "o1", "o2", "pin", "pout", "s1", "v1", "fn1", "fn2", "fnsub", "t1"]  # python identifiers
POS_STR = ["s2", "s3", "pn"]  # passed as name="..." strings


def gen_names(rs):
    names = {}
    benign = rs.permute(BENIGN)
    allpos = POS_PY + POS_STR
    for i, p in enumerate(allpos):
        names[p] = benign[i]
    names["ENT"] = "E" + names["ENT"]
    names["SUB"] = "S" + names["SUB"]
    nadv = rs.weighted([(3, 1), (4, 2), (3, 3), (1, 5)])
    used = set(v.lower() for v in names.values())
    classes = []
    collide_target = None
    for _ in range(nadv):
        p = rs.choice(allpos)
        cls = rs.weighted([(6, "reserved"), (5, "predef"), (5, "generated"), (4, "case"), (3, "underscore"), (2, "weird"), (3, "collide"), (2, "suffix")])
        if cls == "reserved":
            n = rs.choice(RESERVED)
            n = n.upper() if rs.below(4) == 0 else n.capitalize() if rs.below(4) == 0 else n
        elif cls == "predef":
            n = rs.choice(PREDEF)
            if rs.below(5) == 0:
                n = n.upper()
        elif cls == "generated":
            n = rs.choice(GENERATED)
            if rs.below(3) == 0:
                n = "buffer_" + names[rs.choice(["o1", "o2", "pout"])]
            elif rs.below(4) == 0:
                n = "arch_" + names["ENT"]
            elif rs.below(4) == 0:
                n = "s_" + names["fn2"]
        elif cls == "case":
            n = rs.choice(CASEV)
        elif cls == "underscore":
            n = rs.choice(UNDERSCORE)
        elif cls == "weird":
            n = rs.choice(WEIRD_STR)
        elif cls == "collide":
            # equal (up to case) to another name of the design
            q = rs.choice([x for x in allpos if x != p])
            n = names[q]
            n = n.upper() if rs.below(2) else n
        else:
            q = rs.choice([x for x in allpos if x != p])
            n = names[q] + str(rs.choice([1, 2, 3]))
        if p in POS_PY and not py_ok(n):
            continue
        if p in ("ENT", "SUB") and n in (names["ENT"], names["SUB"]) :
            continue
        # two python-level names of the same class body / function must differ as python identifiers
        same_scope = {"ports_top": ["i1", "i2", "o1", "o2"], "ports_sub": ["pin", "pout"], "arch": ["s1", "v1", "fn1", "fn2"], "classes": ["ENT", "SUB"]}
        clash = False
        for grp in same_scope.values():
            if p in grp and any(names[g] == n for g in grp if g != p):
                clash = True
        if clash or n in ("clk",):
            continue
        names[p] = n
        classes.append(cls)
    return names, classes


def render_names(nm, reserved=None):
    pn_kw = f", name={nm['pn']!r}"
    return f"""from __future__ import annotations
import cohdl
from cohdl import Bit, BitVector, Unsigned, Signed, Port, Signal, Variable, Null, Full, true, false
from cohdl import std

class {nm['SUB']}(cohdl.Entity):
    {nm['pin']} = Port.input(Unsigned[4])
    {nm['pout']} = Port.output(Unsigned[4])

    def architecture(self):
        @std.concurrent
        def {nm['fnsub']}():
            self.{nm['pout']} <<= self.{nm['pin']} + 1

class {nm['ENT']}(cohdl.Entity):
    clk = Port.input(Bit)
    {nm['i1']} = Port.input(Unsigned[4])
    {nm['i2']} = Port.input(Bit)
    {nm['o1']} = Port.output(Unsigned[4], default=0)
    {nm['o2']} = Port.output(Bit, default=False)
    extra = Port.output(Unsigned[4]{pn_kw})

    def architecture(self):
        {nm['s1']} = Signal[Unsigned[4]](0)
        s_named = Signal[Unsigned[4]](0, name={nm['s2']!r})
        {nm['v1']} = Variable[Unsigned[4]](0)
        mem = Signal[cohdl.Array[Unsigned[4], 4]](Null, name={nm['s3']!r})
        {nm['SUB']}({nm['pin']}=self.{nm['i1']}, {nm['pout']}={nm['s1']})

        @std.sequential(std.Clock(self.clk))
        def {nm['fn1']}():
            nonlocal {nm['v1']}
            {nm['v1']} @= {nm['v1']} + 1
            {nm['t1']} = self.{nm['i1']} + {nm['v1']}
            s_named.next = {nm['t1']}
            mem[self.{nm['i1']}[1:0].unsigned] <<= {nm['s1']}
            if self.{nm['i2']}:
                self.{nm['o1']} <<= s_named
            self.extra <<= mem[self.{nm['i1']}[3:2].unsigned]

        @std.sequential(std.Clock(self.clk))
        async def {nm['fn2']}():
            await self.{nm['i2']}
            self.{nm['o2']} <<= True
            await true
            self.{nm['o2']} <<= False

E = {nm['ENT']}
"""


def ident_of(msg):
    m = re.findall(r"'([^']*)'", msg)
    return (m[0] if m else "").lower()


POS_CLASS = {"ENT": "entity", "SUB": "entity", "i1": "port", "i2": "port", "o1": "port", "o2": "port", "pin": "port", "pout": "port", "pn": "port", "fn1": "context", "fn2": "context", "fnsub": "context", "s1": "object", "s2": "object", "s3": "object", "v1": "object", "t1": "object"}


def name_class(n):
    low = n.lower()
    if low in RESERVED:
        return "reserved-word"
    if low in PREDEF:
        return "predefined:" + low
    if low in GENERATED or low.startswith(("buffer_", "arch_", "s_", "state_")):
        return "generated:" + re.sub(r"_[a-z]+$", "_<name>", low) if low.startswith(("buffer_", "arch_", "s_")) else "generated:" + low
    if not re.fullmatch(r"[A-Za-z][A-Za-z0-9_]*", n):
        return "not-an-identifier"
    if n.endswith("_") or "__" in n:
        return "underscores"
    return "plain"


def special_positions(nm, reserved=None):
    """positions whose user-chosen name is adversarial: not a plain identifier class, equal (up to case) to another name,
    another name plus a numeric suffix, or listed in additional_reserved_names"""
    out = {}
    lows = {p: v.lower() for p, v in nm.items()}
    for p, v in nm.items():
        why = []
        c = name_class(v)
        if c != "plain":
            why.append(c)
        if sum(1 for q in lows if lows[q] == lows[p]) > 1:
            why.append("equal-to-another-name")
        if any(q != p and lows[p] != lows[q] and lows[p].startswith(lows[q]) and lows[p][len(lows[q]) :].isdigit() for q in lows):
            why.append("another-name-plus-suffix")
        if lows[p] in (reserved or []):
            why.append("in-additional-reserved-names")
        if why:
            out[p] = why
    return out


def cause_key(rule, ident, nm, reserved=None):
    """root cause of a naming violation.  Each root cause below is a known finding (known_findings.json, DESIGN 11):
    names of ports and entities are written verbatim into the interface although they may be illegal, reserved or
    already used (and are renamed inconsistently inside); user names are not turned into legal identifiers; only five
    predefined names are reserved.  Anything that cannot be attributed to an adversarial name gets a specific key."""
    sp = special_positions(nm, reserved)
    # positions the offending identifier points at (the uniquifier appends digits, buffers/architectures/states add prefixes)
    bases = [ident]
    for pre in ("buffer_", "arch_", "state_", "s_"):
        if bases[-1].startswith(pre):
            bases.append(bases[-1][len(pre) :])
    cands = [p for p, v in nm.items() if any(b and (v.lower() == b or (b.startswith(v.lower()) and b[len(v) :].isdigit())) for b in bases)]
    hit = [p for p in cands if p in sp] or list(sp)
    pcs = {POS_CLASS[p] for p in hit}
    whys = {w for p in hit for w in sp[p]}
    if "port" in pcs:
        return "C06:port-name-emitted-verbatim"
    if "entity" in pcs:
        return "C06:entity-name-emitted-verbatim"
    if whys & {"underscores", "not-an-identifier"}:
        return "C06:user-name-not-made-a-legal-identifier"
    if any(w.startswith(("predefined:", "generated:")) for w in whys):
        return "C06:predefined-or-generated-name-not-reserved"
    return f"C06:{rule}:{'+'.join(sorted(POS_CLASS[p] for p in cands)) or '?'}:{'+'.join(sorted(whys)) or 'plain-names'}"


def check_text(text, lib):
    """-> (vclass, detail) or None"""
    try:
        design = elab.elaborate_text(text, temp_names=render.temp_classifier(lib) if lib is not None else None)
    except VhdlError as e:
        return "illegal-vhdl:" + str(e.rule), {"rule": e.rule, "msg": str(e)[:300], "identifier": ident_of(str(e))}, None
    return None, None, design


def names_run(seed, idx):
    rs = rng.Stream(seed, "C06", "names", idx)
    nm, classes = gen_names(rs)
    reserved = None
    if rs.below(6) == 0:
        reserved = sorted({nm[rs.choice(POS_PY[2:])].lower() for _ in range(2)})
    src = render_names(nm)
    res = {"kind": "names", "classes": sorted(set(classes)), "names": nm}
    try:
        text, lib = render.compile_source(src, "E", sidecar=True, reserved=reserved)
    except render.Rejected as e:
        res.update(outcome="rejected", reason=f"{e.exc_type}: {e.message[:80]}")
        return res, None
    vclass, det, design = check_text(text, lib)
    if vclass:
        det["adversarial_classes"] = sorted(set(classes))
        det["cause_key"] = cause_key(det["rule"], det["identifier"], nm, reserved)
        det["additional_reserved_names"] = reserved
        det["names"] = {k: v for k, v in nm.items() if v not in BENIGN and v[1:] not in BENIGN}
        res.update(outcome="accepted", vclass=vclass, detail=det)
        return res, {"kind": "names", "names": nm, "reserved": reserved, "source": src}
    # short simulation: no simulator error, sensitivity monitor on
    st = dutm.guarded(lambda: _short_sim(design, seed, idx, nm))
    res.update(outcome="accepted")
    if st[0] != "ok":
        res.update(vclass=st[0], detail=st[1])
        return res, {"kind": "names", "names": nm, "reserved": reserved, "source": src}
    return res, None


def _short_sim(design, seed, idx, nm):
    rs = rng.Stream(seed, "C06", "sim", idx)
    d = dutm.Dut(design, rng.derive(seed, "C06", "order", idx), "c06", offsets=False)
    ports = {k: o for k, o in design.top_ports.items()}
    ins = {n: o for n, o in ports.items() if o.mode == "in" and n != "clk"}
    first = {}
    for n, o in ins.items():
        first[n] = 0
    d.start(first)
    for k in range(12):
        inp = {}
        for n, o in ins.items():
            inp[n] = rs.below(2) if o.ty.kind == "sl" else rs.below(1 << o.ty.length) if o.ty.kind == "vec" else 0
        d.clock(inp)
        d.half()
    pr = d.problems()
    if pr:
        return pr
    return "ok", {}


PIGGY = ["c01", "c03", "c03comb", "c04", "c14", "c15", "c16", "c07", "c08", "c03comb", "c12", "c02", "c20", "c05"]


def piggy_source(seed, idx, tier):
    """-> (workload name, source text, entity name, needs sensitivity sim)"""
    w = PIGGY[idx % len(PIGGY)]
    j = idx // len(PIGGY)
    if w == "c01":
        from vf.gen import coro
        from vf.props import c01

        return w, coro.render(c01.gen_program(seed + 7, j, tier)), False
    if w == "c03":
        from vf.gen import seq
        from vf.props import c03

        prog = c03.gen_program(seed + 7, j, tier)
        return w, seq.render(prog), any(c["kind"] == "comb" for c in prog["ctxs"])
    if w == "c03comb":
        # designs with an unclocked sequential context (inferred sensitivity list), some of which read back a signal they drive
        from vf.gen import seq
        from vf.props import c03

        for k in range(40):
            prog = c03.gen_program(seed + 11, j * 40 + k, tier)
            if any(c["kind"] == "comb" for c in prog["ctxs"]):
                break
        return w, seq.render(prog), True
    if w == "c04":
        from vf.gen import coro
        from vf.props import c04

        return w, coro.render(c04.gen_program(seed + 7, j, tier)), False
    if w in ("c14", "c15", "c16"):
        import importlib

        m = importlib.import_module(f"vf.props.{w}")
        cfg = m.CONFIGS[(j * 7 + seed) % len(m.CONFIGS)]
        return w, m.render_src(cfg), False
    if w == "c12":
        # instantiation trees (the typed-view actuals of the known C06/C12 finding are left to their own fixed probe)
        from vf.core import rng as _rng
        from vf.props import c12

        for k in range(20):
            rs = _rng.Stream(seed + 7, "C12", "tree", j * 20 + k)
            tree = c12.gen_tree(rs)
            if rs.below(3) == 0:
                tree = c12.cross_depth(tree, rs)
            if not c12.uses_typed_view_actual(tree):
                break
        return w, c12.render_hier(tree)[0], False
    if w == "c02":
        from vf.props import c02

        e, t = c02.gen_case(seed + 7, j, tier)
        return w, c02.render_src(e, t), False
    if w == "c20":
        from vf.core import rng as _rng
        from vf.props import c20

        rs = _rng.Stream(seed + 7, "C20", "map", j)
        m = c20.gen_interconnect(rs) if j % 4 == 0 else c20.gen_map(rs)
        return w, c20.render_src(m), False
    if w == "c05":
        # conversion cases the statement of C05 lets the compiler accept (the 4 equal-width port connections of the known C05
        # finding are that check's own matter)
        from vf.props import c05

        acc = [c for c in c05.CASES if c05.expected(c) == "accept" and c["form"] != "port"]
        return w, c05.render_src(acc[(j * 37 + seed) % len(acc)]), False
    if w == "c07":
        from vf.props import c07

        acc = [c for c in c07.CASES if c["expected"] != "reject"]
        return w, c07.render_src(acc[j % len(acc)]), False
    from vf.props import c08

    acc = [c for c in c08.CASES if c08.expected(c) == "accept"]
    return w, c08.render_src(acc[j % len(acc)]), False


def piggy_run(seed, idx, tier):
    w, src, comb = piggy_source(seed, idx, tier)
    res = {"kind": "piggyback:" + w}
    try:
        text, lib = render.compile_source(src, "E", sidecar=True)
    except render.Rejected as e:
        res.update(outcome="rejected", reason=f"{e.exc_type}: {e.message[:80]}")
        return res, None
    vclass, det, design = check_text(text, lib)
    res["outcome"] = "accepted"
    if vclass:
        res.update(vclass=vclass, detail=det)
        return res, {"kind": "piggy", "workload": w, "source": src}
    if comb:
        st = dutm.guarded(lambda: _sens_sim(design, seed, idx))
        if st[0] != "ok":
            res.update(vclass=st[0], detail=st[1])
            return res, {"kind": "piggy", "workload": w, "source": src}
    return res, None


def _sens_sim(design, seed, idx):
    """change exactly one non-clock input at a time so that a signal missing from a sensitivity list shows"""
    from vf.tb import bench

    rs = rng.Stream(seed, "C06", "sens", idx)
    b = bench.Bench(design, order_stream=rng.Stream(seed, "C06", "order", idx), offsets_stream=None, check_sens=True)
    ins = {n: o for n, o in design.top_ports.items() if o.mode == "in" and n != "clk"}
    cur = {n: 0 for n in ins}
    b.start(dict(cur))
    for k in range(40):
        n = rs.choice(sorted(ins))
        o = ins[n]
        cur[n] = rs.below(2) if o.ty.kind == "sl" else rs.below(1 << o.ty.length)
        b.apply({n: cur[n]})
        if b.sim.sens_violations:
            pid, sid, old, new = b.sim.sens_violations[0][:4]
            return "incomplete-sensitivity-list", {"process": design.procs[pid].label, "signal": design.signals[sid].name, "changed_input": n}
        if k % 5 == 4:
            b.edge()
            b.half()
    return "ok", {}


_FHEAD = """from __future__ import annotations
import cohdl
from cohdl import Bit, BitVector, Unsigned, Signed, Port, Signal, Variable, Null, Full, true, false
from cohdl import std
"""

# fixed probe designs: shapes that earlier rounds found to yield illegal VHDL (each is a known finding or was fixed);
# the generators of the other workloads avoid them, so they are kept here explicitly
FIXED = {
    "unclocked-context-reads-nothing": _FHEAD
    + """
class E(cohdl.Entity):
    a = Port.input(Bit)
    o = Port.output(Unsigned[4], default=0)
    def architecture(self):
        @std.sequential
        def proc():
            self.o <<= 9
""",
    "entity-E-with-port-e": _FHEAD
    + """
class E(cohdl.Entity):
    e = Port.input(Bit)
    o = Port.output(Bit)
    def architecture(self):
        @std.concurrent
        def logic():
            self.o <<= self.e
""",
    "sub-entity-input-wider-than-actual": _FHEAD
    + """
class Sub(cohdl.Entity):
    i = Port.input(Unsigned[8])
    x = Port.output(Unsigned[8])
    def architecture(self):
        @std.concurrent
        def logic():
            self.x <<= self.i + 1

class E(cohdl.Entity):
    d = Port.input(Unsigned[4])
    o = Port.output(Unsigned[8])
    def architecture(self):
        Sub(i=self.d, x=self.o)
""",
    "typed-view-as-actual": _FHEAD
    + """
class Sub(cohdl.Entity):
    b = Port.input(BitVector[2])
    x = Port.output(BitVector[2])
    def architecture(self):
        @std.concurrent
        def logic():
            self.x <<= ~self.b

class E(cohdl.Entity):
    d = Port.input(Unsigned[4])
    o = Port.output(BitVector[2])
    def architecture(self):
        Sub(b=self.d.bitvector[1:0], x=self.o)
""",
    "sub-entity-output-narrower-than-actual": _FHEAD
    + """
class Sub(cohdl.Entity):
    i = Port.input(Unsigned[4])
    x = Port.output(Unsigned[4])
    def architecture(self):
        @std.concurrent
        def logic():
            self.x <<= self.i + 1

class E(cohdl.Entity):
    d = Port.input(Unsigned[4])
    o = Port.output(Unsigned[8])
    def architecture(self):
        Sub(i=self.d, x=self.o)
""",
}


def cluster_source(rs):
    """N objects whose names collide case-insensitively / by numeric suffix: exercises the uniquifier's suffix search"""
    base = rs.choice(["Data", "temp", "Sig", "q", "Buffer_o", "proc", "X"])
    n = rs.range(3, 9)
    names = []
    for i in range(n):
        c = rs.below(6)
        b = base.upper() if c == 0 else base.lower() if c == 1 else base.capitalize() if c == 2 else base
        if rs.below(3) == 0:
            b += str(rs.range(1, 4))
        names.append(b)
    kinds = [rs.choice(["sig", "sig", "var", "fn"]) for _ in range(n)]
    L = [_FHEAD, "class E(cohdl.Entity):", "    clk = Port.input(Bit)", "    d = Port.input(Unsigned[4])", "    o = Port.output(Unsigned[4], default=0)", "", "    def architecture(self):"]
    prev = "self.d"
    body = []
    fns = []
    for i, (nme, k) in enumerate(zip(names, kinds)):
        if k == "sig":
            L.append(f"        x{i} = Signal[Unsigned[4]](0, name={nme!r})")
            body.append(f"x{i}.next = {prev} + 1")
            prev = f"x{i}"
        elif k == "var":
            L.append(f"        x{i} = Variable[Unsigned[4]](0, name={nme!r})")
            body.append(f"x{i}.value = {prev} + 1")
            prev = f"x{i}"
        else:
            if not nme.isidentifier() or keyword.iskeyword(nme):
                continue
            fns.append(nme)
    L += ["        @std.sequential(std.Clock(self.clk))", "        def main():"] + ["            " + b for b in body] + [f"            self.o <<= {prev}"]
    seen = set()
    for j, f in enumerate(fns):
        if f in seen or f in ("main", "E"):
            continue
        seen.add(f)
        L += [f"        q{j} = Signal[Unsigned[4]](0)", "        @std.sequential(std.Clock(self.clk))", f"        def {f}():", f"            q{j}.next = self.d"]
    return "\n".join(L) + "\n", names


def cluster_run(seed, idx):
    rs = rng.Stream(seed, "C06", "cluster", idx)
    src, names = cluster_source(rs)
    res = {"kind": "cluster", "classes": ["collision-cluster"], "names": {str(i): n for i, n in enumerate(names)}}
    try:
        text, lib = render.compile_source(src, "E", sidecar=True)
    except render.Rejected as e:
        res.update(outcome="rejected", reason=f"{e.exc_type}: {e.message[:80]}")
        return res, None
    vclass, det, design = check_text(text, lib)
    res["outcome"] = "accepted"
    if vclass:
        det["cause_key"] = f"C06:cluster:{det['rule']}"
        det["cluster_names"] = names
        res.update(vclass=vclass, detail=det)
        return res, {"kind": "fixed", "source": src}
    return res, None


def fixed_run(name):
    src = FIXED[name]
    res = {"kind": "fixed:" + name}
    try:
        text, lib = render.compile_source(src, "E", sidecar=True)
    except render.Rejected as e:
        res.update(outcome="rejected", reason=f"{e.exc_type}: {e.message[:80]}")
        return res, None
    vclass, det, design = check_text(text, lib)
    res["outcome"] = "accepted"
    if vclass:
        det["cause_key"] = f"C06:fixed:{name}:{det['rule']}"
        res.update(vclass=vclass, detail=det)
        return res, {"kind": "fixed", "name": name, "source": src}
    return res, None


def split(tier):
    return (1500, 1500) if tier == "quick" else (60000, 30000)


def n_cluster(tier):
    return 600 if tier == "quick" else 20000


def plan(tier):
    return sum(split(tier)) + len(FIXED) + n_cluster(tier)


def run_one(seed, idx, tier):
    nn, npig = split(tier)
    try:
        if idx < nn:
            res, payload = names_run(seed, idx)
        elif idx < nn + npig:
            res, payload = piggy_run(seed, idx - nn, tier)
        elif idx < nn + npig + len(FIXED):
            res, payload = fixed_run(sorted(FIXED)[idx - nn - npig])
        else:
            res, payload = cluster_run(seed, idx - nn - npig - len(FIXED))
    except Unsupported as e:
        return {"idx": idx, "status": "harness", "vclass": "unsupported", "detail": {"msg": str(e)[:300]}}
    res["idx"] = idx
    res["shape"] = hashlib.sha256(repr((res["kind"], res.get("classes"), sorted((res.get("names") or {}).items()))).encode()).hexdigest()[:12] if res["kind"] == "names" else f"{res['kind']}:{idx}"
    if res.get("vclass"):
        res["status"] = "violation"
        payload["seed"] = seed
        payload["idx"] = idx
        payload["tier"] = tier
        res["payload"] = payload
    else:
        res["status"] = "ok"
    return res


def replay(payload):
    try:
        text, lib = render.compile_source(payload["source"], "E", sidecar=True, reserved=payload.get("reserved"))
    except render.Rejected as e:
        return "rejected", {"reason": str(e)}
    vclass, det, design = check_text(text, lib)
    if vclass:
        return vclass, det
    if payload["kind"] == "fixed":
        return "ok", {}
    if payload["kind"] == "names":
        st = dutm.guarded(lambda: _short_sim(design, payload["seed"], payload["idx"], payload["names"]))
    else:
        st = dutm.guarded(lambda: _sens_sim(design, payload["seed"], payload["idx"] - split(payload["tier"])[0]))
    return st[0], st[1]


def finding_key(r):
    d = r.get("detail") or {}
    if d.get("cause_key"):
        return d["cause_key"]
    if (r.get("vclass") or "").startswith("illegal-vhdl:"):
        return f"C06:{d.get('rule')}:{r.get('kind')}:{d.get('identifier')}"
    return f"C06:{r.get('vclass')}"


ASSUMPTIONS = [
    "VSIM's front end implements the LRM rules named in DESIGN 3.4 for the emitted subset; it is calibrated on 162 upstream designs that ghdl accepted in the project's CI",
    "every accepted design is only as wide as the generators: the name workload (one template, 17 naming positions) plus samples of all other workloads",
    "rejections are not explored (the statement speaks about accepted designs)",
]


def evidence(results, tier):
    names = [r for r in results if r.get("kind") == "names"]
    pig = [r for r in results if str(r.get("kind", "")).startswith("piggyback")]
    acc = [r for r in results if r.get("outcome") == "accepted"]
    cls = {}
    for r in names:
        for c in r.get("classes") or []:
            k = c + (":accepted" if r.get("outcome") == "accepted" else ":rejected")
            cls[k] = cls.get(k, 0) + 1
    pw = {}
    for r in pig:
        pw[r["kind"]] = pw.get(r["kind"], 0) + 1
    nontriv = {r["shape"] for r in acc if (r.get("kind") != "names" or r.get("classes"))}
    sample = None
    for r in names:
        if r.get("outcome") == "accepted" and len(r.get("classes") or []) >= 2:
            sample = {"run": r["idx"], "adversarial_classes": r["classes"], "names": r["names"]}
            break
    return {
        "evaluations": len(results),
        "distinct_nontrivial": len(nontriv),
        "rule": "one evaluation = one design compiled by the real CoHDL and elaborated by the strict reference elaborator (names workload: 1-5 of 17 naming positions drawn from the adversarial pool; "
        "piggyback: a design of another workload); accepted name designs are also simulated 12 clocks, designs with unclocked contexts 40 single-input changes with the sensitivity monitor; "
        "distinct = distinct name assignments / designs; non-trivial = accepted and (for names) at least one adversarial name",
        "samples": [sample] if sample else [],
        "name_designs": len(names),
        "piggyback_designs": pw,
        "accepted": len(acc),
        "rejected_not_explored": len([r for r in results if r.get("outcome") == "rejected"]),
        "adversarial_name_classes(outcome)": cls,
        "real_components": ["cohdl compiler (naming scopes, back end)", "emitted VHDL text"],
        "model_components": ["VSIM parser + strict elaborator (LRM rules)", "sensitivity monitor", "name pool"],
    }
