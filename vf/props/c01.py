"""C01 — coroutine -> state machine translation is clock-accurate.

One run: generate a coroutine body (seeded) -> compile with the real CoHDL -> elaborate in VSIM
(legality checks on) -> simulate under seeded process order / input offsets / stimulus / stall
(step_cond) with the poison (read-before-write) monitor on -> compare every output at every clock
with the generator-based reference interpreter.
"""
from __future__ import annotations

import hashlib

from vf.core import rng
from vf.gen import coro, render
from vf.ref import coro_ref
from vf.tb import bench
from vf.vsim import elab, kernel
from vf.vsim.ieee import SimError
from vf.vsim.parse import VhdlError, Unsupported

PROP = "C01"
OUTS = ("marker", "acc", "q", "r")


def gen_program(seed, idx, tier):
    rs = rng.Stream(seed, "C01", "program", idx)
    big = tier == "thorough" and rs.below(3) == 0
    g = coro.Gen(rs, max_depth=4 if big else 3, max_stmts=16 if big else 11)
    g.push = rs.below(4) == 0
    return g.program()


def gen_stimulus(rs, prog, n):
    """biased input sequences: conditions true at the first poll, exactly one clock late,
    long false runs, toggling every clock"""
    seq = []
    mode = {x: rs.below(5) for x in "abc"}
    cur = {x: rs.below(2) for x in "abc"}
    d = rs.below(16)
    en_mode = rs.below(4)
    for i in range(n):
        for x in "abc":
            m = mode[x]
            if m == 0:
                cur[x] = rs.below(2)
            elif m == 1:
                cur[x] = 1 if rs.below(8) else 0
            elif m == 2:
                cur[x] = 0 if rs.below(8) else 1
            elif m == 3:
                cur[x] = 1 - cur[x]
            else:
                if rs.below(6) == 0:
                    cur[x] = 1 - cur[x]
            if rs.below(40) == 0:
                mode[x] = rs.below(5)
        if rs.below(3) == 0:
            d = rs.below(16)
        step = dict(cur)
        step["d"] = d
        if prog.get("step_cond"):
            step["en"] = 1 if en_mode == 0 else (rs.below(2) if en_mode == 1 else (0 if rs.below(5) == 0 else 1) if en_mode == 2 else (1 if rs.below(4) == 0 else 0))
        seq.append(step)
    return seq


class Outcome(dict):
    pass


def simulate(prog, text, temp_names, stim, order_seed, order_mode="uniform", offsets=True, log=None):
    """returns (status, detail, stats).  status: ok | mismatch | legality | rbw | simerror | assert |
    driver | unsupported | model-diverges"""
    stats = {}
    try:
        design = elab.elaborate_text(text, temp_names=temp_names)
    except VhdlError as e:
        return "legality", {"rule": e.rule, "msg": str(e)}, stats
    except Unsupported as e:
        return "unsupported", {"msg": str(e)}, stats
    order_rs = rng.Stream(order_seed, "order")
    off_rs = rng.Stream(order_seed, "offsets") if offsets else None
    b = bench.Bench(design, order_stream=order_rs, offsets_stream=off_rs, active=prog["edge"], log=log, order_mode=order_mode)
    ref = coro_ref.CoroRef(prog)
    sim = b.sim
    proc_pid = next((p.pid for p in design.procs if p.kind == "process"), None)
    stats["states"] = 0
    for n, t in design.enum_types.items():
        stats["states"] = max(stats["states"], len(t.lits))
    state_sid = None
    for s in design.signals:
        if s.ty.kind == "enum":
            state_sid = s.sid
    seen_states = set()
    seen_trans = set()
    try:
        first = dict(stim[0])
        b.start(first)
        prev = first
        exp = dict(ref.sig)
        for k, step in enumerate(stim):
            if state_sid is not None:
                st_before = sim.V[state_sid]
            b.cycle(step, prev)
            prev = step
            if prog.get("step_cond") and not step["en"]:
                pass
            else:
                exp = ref.step(step)
            got = {n: b.get(n) for n in ref.OUTS}
            if state_sid is not None:
                st_after = sim.V[state_sid]
                seen_states.add(st_before)
                seen_trans.add((st_before, st_after))
            if got != exp:
                return "mismatch", {"clock": k, "expected": exp, "got": got}, stats
            b.half()
            got2 = {n: b.get(n) for n in ref.OUTS}
            if got2 != exp:
                return "mismatch", {"clock": k, "expected": exp, "got": got2, "phase": "inactive-edge"}, stats
            if sim.asserts:
                return "assert", {"clock": k, "asserts": sim.asserts[:3]}, stats
            if sim.driver_conflicts:
                return "driver", {"clock": k, "conflicts": sim.driver_conflicts[:3]}, stats
    except kernel.ReadBeforeWrite as e:
        return "rbw", {"msg": str(e), "var": e.var}, stats
    except coro_ref.ModelDiverges:
        return "model-diverges", {}, stats
    except SimError as e:
        return "simerror", {"msg": str(e)}, stats
    finally:
        stats["deltas"] = sim.delta_count
        stats["activations"] = sim.activations
        stats["reorders"] = sim.reorders
        stats["offsets"] = dict(b.offset_counts)
        stats["seen_states"] = len(seen_states)
        stats["seen_trans"] = len(seen_trans)
        stats["clocks"] = b.cycles
    return "ok", {}, stats


def compile_prog(prog, attrs=None):
    src = coro.render(prog, attrs)
    text, lib = render.compile_source(src, "E", sidecar=True)
    return src, text, render.temp_classifier(lib)


def run_one(seed, idx, tier):
    prog = gen_program(seed, idx, tier)
    rs = rng.Stream(seed, "C01", "config", idx)
    attrs = None
    if rs.below(3) == 0:
        attrs = {}
        if rs.below(2):
            attrs["zero_init_temporaries"] = True
    res = {"idx": idx, "shape": hashlib.sha256(repr(coro.shape(prog)).encode()).hexdigest()[:16], "nodes": coro.count_nodes(prog["body"])}
    try:
        src, text, tn = compile_prog(prog, attrs)
    except render.Rejected as e:
        res.update(status="rejected", reason=f"{e.exc_type}: {e.message[:120]}", site=e.site)
        return res
    nstim = 3 if tier == "quick" else 5
    res["runs"] = []
    agg = {"deltas": 0, "activations": 0, "reorders": 0, "clocks": 0, "pre": 0, "post": 0, "glitch": 0}
    trans = 0
    for j in range(nstim):
        srs = rng.Stream(seed, "C01", "stimulus", idx, j)
        n = srs.range(40, 120 if tier == "quick" else 300)
        stim = gen_stimulus(srs, prog, n)
        oseed = rng.derive(seed, "C01", "order", idx, j)
        mode = ("uniform", "uniform", "reverse", "stable")[rng.Stream(oseed, "mode").below(4)]
        status, detail, stats = simulate(prog, text, tn, stim, oseed, order_mode=mode)
        for k in ("deltas", "activations", "reorders", "clocks"):
            agg[k] += stats.get(k, 0)
        for k in ("pre", "post", "glitch"):
            agg[k] += stats.get("offsets", {}).get(k, 0)
        trans = max(trans, stats.get("seen_trans", 0))
        if status == "legality":
            res.update(status="skipped", reason="illegal-vhdl:" + str(detail.get("rule")), agg=agg)
            return res
        if status != "ok":
            res.update(
                status="violation" if status not in ("unsupported",) else "harness",
                vclass=status,
                detail=detail,
                payload={"prog": prog, "attrs": attrs, "source": src, "vhdl": text, "stim": stim, "order_seed": oseed, "order_mode": mode},
            )
            res["agg"] = agg
            return res
    res.update(status="ok", agg=agg, states=stats.get("states", 0), trans=trans)
    return res


def replay(payload):
    """re-execute a recorded case against the current tree: recompiles from the recorded source"""
    prog = payload["prog"]
    try:
        src, text, tn = compile_prog(prog, payload.get("attrs"))
    except render.Rejected as e:
        return "rejected", {"reason": str(e)}
    status, detail, stats = simulate(prog, text, tn, payload["stim"], payload["order_seed"], order_mode=payload.get("order_mode", "uniform"))
    return status, detail


# ---- harness interface --------------------------------------------------------------------------
LEVEL = "exploration"
ASSUMPTIONS = [
    "VSIM (own VHDL-subset simulator, validated against 244 upstream cocotb testbenches) stands in for a VHDL simulator",
    "reference = generator-based interpreter of the program tree written from the property statement; "
    "points the statement leaves open (an await nested in a leading `if` is not 'the very first action'; a leading "
    "`await true` passes immediately and leaves the process at its start) were calibrated on the unchanged tree",
    "programs up to 16 statements / depth 4, runs up to 300 clocks",
]


def plan(tier):
    return 3000 if tier == "quick" else 60000


def finding_key(r):
    return None


def evidence(results, tier):
    ok = [r for r in results if r["status"] == "ok"]
    rej = [r for r in results if r["status"] == "rejected"]
    shapes = {(r["shape"], r.get("trans", 0)) for r in ok if r.get("trans", 0) >= 2}
    agg = {}
    for r in results:
        for k, v in (r.get("agg") or {}).items():
            agg[k] = agg.get(k, 0) + v
    rej_reasons = {}
    for r in rej:
        rej_reasons[r["reason"][:80]] = rej_reasons.get(r["reason"][:80], 0) + 1
    sample = None
    for r in results:
        if r["status"] == "ok" and r["nodes"] >= 6:
            prog = gen_program(results_seed[0], r["idx"], tier)
            sample = {"run": r["idx"], "source": coro.render(prog).split("async def proc():")[1], "states": r.get("states"), "transitions_seen": r.get("trans")}
            break
    return {
        "evaluations": len(results),
        "distinct_nontrivial": len(shapes),
        "rule": "one evaluation = one generated coroutine design compiled by the real CoHDL and simulated under 3 (quick) / 5 (thorough) "
        "seeded schedules (stimulus, process order, input offsets, step_cond stalls) with per-clock comparison of all outputs against "
        "the generator reference; distinct = distinct (program-shape hash, number of distinct state transitions taken); non-trivial = "
        "accepted, >= 2 distinct state transitions executed",
        "samples": [sample] if sample else [{"note": "no accepted design with >= 6 nodes in this run"}],
        "accepted": len(ok),
        "rejected_not_explored": len(rej),
        "illegal_vhdl_not_explored(see C06)": len([r for r in results if r["status"] == "skipped"]),
        "rejection_reasons": rej_reasons,
        "simulated_clocks": agg.get("clocks", 0),
        "delta_cycles": agg.get("deltas", 0),
        "process_activations": agg.get("activations", 0),
        "faults_fired": {"process_order_permutations_differing_from_source_order": agg.get("reorders", 0), "input_offset_pre": agg.get("pre", 0), "input_offset_post": agg.get("post", 0), "input_glitch": agg.get("glitch", 0), "poison_read_before_write_monitor": "on in every run"},
        "real_components": ["cohdl compiler (front end, IR, VHDL back end, std.sequential)", "emitted VHDL text"],
        "model_components": ["VSIM", "ieee re-implementation", "coroutine reference interpreter", "testbench driver"],
    }


results_seed = [1]


def prepare(seed, tier):
    results_seed[0] = seed
