"""C11 — compilation is a pure function of the design, independent of history.

Simulated system: the compiler *session*.  One run = one history of compilations executed in a fork
of a pristine interpreter started under a chosen PYTHONHASHSEED.  The injected fault is the rejected
compilation: a real user error planted at a seeded site of a valid design, so that the exception
unwinds from every stage of the pipeline.  Oracle: the outcome of every compilation in the history
(emitted bytes, or rejection) equals the outcome of the same source compiled alone in a fresh fork;
goldens agree across hash seeds and across two forks.

run groups (fixed by tier, see plan()):
  A   per planted rejection e: [compile e] then every valid / context-invalid design twice, order seeded
  A2  (thorough) every adjacent pair: [compile e, compile d, compile d]
  O   a design compiled with and without additional_reserved_names, alternating
  R   the SAME class object compiled again after a rejected attempt (module-level flag guards the error)
  V   no rejection at all: every ORDERED PAIR of valid designs adjacent once (a seeded Euler circuit of the complete digraph,
      cut into histories of 64 compilations) -- what a SUCCESSFUL compilation leaves behind must not reach the next one
  B   sampled longer histories (12..40 ops: valid, planted, context-invalid, gc)
  C   cross-hash-seed goldens of every valid (thorough: also every planted) design, and two forks of one interpreter
(fork() does not scale across processes in this VM, so histories are long rather than many.)
"""
from __future__ import annotations

import hashlib

from vf.core import rng
from vf.gen import pool
from vf.session import pristine

PROP = "C11"
LEVEL = "fault_enumeration"
FN = "vf.session.history:run_compile_history"

_VALID = None
_PLANTED = None
_golden = {}
_seed = [1]


def tables():
    global _VALID, _PLANTED
    if _VALID is None:
        _VALID = pool.all_valid()
        _PLANTED = pool.all_planted()
    return _VALID, _PLANTED


def hash_seeds(seed, tier):
    """hash seeds used for histories (first 4 / 8) and for the cross-seed goldens (all)"""
    base = [0, 1, 2]
    extra = [rng.derive(seed, "C11", "hashseed", i) % 4294967295 for i in range(5 if tier == "quick" else 29)]
    return base + extra


def n_hist_seeds(tier):
    return 4 if tier == "quick" else 8


def all_sources():
    v, p = tables()
    d = dict(v)
    for k, (_, src) in p.items():
        d[k] = src
    return d


def prepare(seed, tier):
    """goldens are computed once, in the parent, before the workers are forked (fork() does not scale
    across processes in this VM): valid designs under every history hash seed, planted ones under the first"""
    _seed[0] = seed
    v, p = tables()
    hss = hash_seeds(seed, tier)[: n_hist_seeds(tier)]
    for hs in hss:
        for k in sorted(v):
            golden(hs, v[k])
    for k in sorted(p):
        golden(hss[0], p[k][1])
    pristine.close_all()


def sizes(tier):
    v, p = tables()
    if tier == "quick":
        return {"A": len(p), "A2": 0, "O": len(v), "R": len(pool.RETRY) * 2, "V": n_chunks(len(v)), "B": 120, "C": len(v)}
    return {"A": len(p) * 8, "A2": len(p) * (len(v)), "O": len(v) * 8, "R": len(pool.RETRY) * 16, "V": n_chunks(len(v)) * 32, "B": 6000, "C": len(v) + len(p)}


V_CHUNK = 64


def n_chunks(n):
    return -(-(n * n) // V_CHUNK)


_circuits = {}


def euler_circuit(seed, rep, keys):
    """a seeded Euler circuit of the complete digraph (self-loops included) over `keys`: every ordered pair adjacent exactly once"""
    ck = (seed, rep, len(keys))
    if ck not in _circuits:
        rs = rng.Stream(seed, "C11", "V", rep)
        out = {k: rs.permute(list(keys)) for k in keys}
        stack, circ = [keys[rs.below(len(keys))]], []
        while stack:  # Hierholzer
            u = stack[-1]
            if out[u]:
                stack.append(out[u].pop())
            else:
                circ.append(stack.pop())
        circ.reverse()
        assert len(circ) == len(keys) ** 2 + 1
        _circuits[ck] = circ
    return _circuits[ck]


def plan(tier):
    return sum(sizes(tier).values())


def decode(idx, tier):
    for g, n in sizes(tier).items():
        if idx < n:
            return g, idx
        idx -= n
    raise IndexError


def srckey(src):
    return hashlib.sha256(src.encode()).hexdigest()[:20]


RESERVED = ["proc", "logic", "s0", "x", "y", "cnt", "flag", "mem", "r", "st", "t", "first", "second", "producer", "consumer", "fifo"]


def same_file(ops):
    """every design of the history is loaded under ONE file name (a file that is edited and loaded again): functions of
    different designs then share file name and line numbers"""
    for op in ops:
        if op[0] == "compile":
            if len(op) > 2:
                op[2] = dict(op[2], fname="<vfgen:design.py>")
            else:
                op.append({"fname": "<vfgen:design.py>"})


def golden(hs, src, planted_hs=None, opts=None):
    # the file name a design was loaded under is not part of the design: the golden is the same with and without it
    opts = {kk: vv for kk, vv in (opts or {}).items() if kk != "fname"} or None
    k = (hs, srckey(src + repr(opts) if opts else src))
    g = _golden.get(k)
    if g is None and planted_hs is not None:
        g = _golden.get((planted_hs, k[1]))
    if g is None:
        g = pristine.get(hs).call(FN, {"ops": [["compile", src] + ([opts] if opts else [])], "probe": False})[0]
        _golden[k] = g
    return g


def golden_mod(hs, src, flag):
    """outcome of compiling the kept module's class E in a fresh fork with FLAGS['bad'] == flag"""
    k = (hs, "mod", srckey(src), bool(flag))
    g = _golden.get(k)
    if g is None:
        ops = [["define_keep", "m", src]] + ([] if flag else [["setflag", "m", False]]) + [["compile_mod", "m"]]
        g = pristine.get(hs).call(FN, {"ops": ops, "probe": False})[-1]
        _golden[k] = g
    return g


def classify(gold, got):
    if gold["st"] == "ok" and got["st"] == "ok":
        return None if gold["sha"] == got["sha"] else "history-alters-output"
    if gold["st"] == "ok" and got["st"] == "rejected":
        return "history-prevents-compilation"
    if gold["st"] == "rejected" and got["st"] == "ok":
        return "history-accepts-rejected-design"
    return None


def check_history(hs, ops):
    """-> (vclass|None, detail, outcomes)"""
    outs = pristine.get(hs).call(FN, {"ops": ops, "probe": True})
    kept = {}
    for i, (op, o) in enumerate(zip(ops, outs)):
        if op[0] == "define_keep":
            kept[op[1]] = [op[2], True]
        elif op[0] == "setflag":
            kept[op[1]][1] = bool(op[2])
        if op[0] not in ("compile", "compile_mod"):
            continue
        if op[0] == "compile_mod":
            g = golden_mod(hs, kept[op[1]][0], kept[op[1]][1])
        else:
            g = golden(hs, op[1], planted_hs=0, opts=op[2] if len(op) > 2 else None)
        c = classify(g, o)
        if c:
            det = {"op_index": i, "hashseed": hs, "fresh": {k: g.get(k) for k in ("st", "sha", "exc", "msg")}, "in_history": {k: o.get(k) for k in ("st", "sha", "exc", "msg")}}
            if c == "history-alters-output":
                det["diff"] = first_diff(hs, ops, i)
            return c, det, outs
    return None, {}, outs


def first_diff(hs, ops, i):
    try:
        a = pristine.get(hs).call(FN, {"ops": [ops[i]], "keep_text": True, "probe": False})[0]["text"].split("\n")
        b = pristine.get(hs).call(FN, {"ops": ops[: i + 1], "keep_text": True, "probe": False})[i]["text"].split("\n")
        for n, (x, y) in enumerate(zip(a, b)):
            if x != y:
                return {"line": n + 1, "fresh": x.strip()[:160], "in_history": y.strip()[:160]}
        return {"line": min(len(a), len(b)) + 1, "fresh_lines": len(a), "history_lines": len(b)}
    except Exception as e:  # pragma: no cover
        return {"error": repr(e)}


def run_one(seed, idx, tier):
    v, p = tables()
    vk = sorted(v)
    pk = sorted(p)
    hss = hash_seeds(seed, tier)
    grp, j = decode(idx, tier)
    res = {"idx": idx, "group": grp}
    nh = n_hist_seeds(tier)
    ctxinv = [k for k in pk if p[k][0] is None]
    if grp == "A":
        # one planted rejection first, then EVERY valid design (and the context-invalid ones) twice, order seeded
        rep, ei = divmod(j, len(pk))
        e = pk[ei]
        hs = hss[(ei + rep) % nh]
        rs = rng.Stream(seed, "C11", "A", j)
        follow = rs.permute(vk + ctxinv)
        if tier == "quick":
            follow = follow[:9]  # quick tier: a seeded half of the designs after each rejection (thorough: all of them)
        ops = [["compile", p[e][1]]]
        names = [e]
        for k in follow:
            src = v[k] if k in v else p[k][1]
            ops += [["compile", src], ["compile", src]]
            names += [k, k]
        if ei % 4 == 1:
            same_file(ops)
    elif grp == "A2":
        # adjacent pairs: [reject e, compile d, compile d] for every (d, e)
        di, ei = divmod(j, len(pk))
        d, e = vk[di], pk[ei]
        hs = hss[(di + ei) % nh]
        ops = [["compile", p[e][1]], ["compile", v[d]], ["compile", v[d]]]
        names = [e, d, d]
    elif grp == "O":
        # compile options are part of the request, not of the interpreter: alternate a design with and without
        # additional_reserved_names (seeded subset of names the designs use)
        rep, di = divmod(j, len(vk))
        d = vk[di]
        rs = rng.Stream(seed, "C11", "O", j)
        hs = hss[(di + rep) % nh]
        r1 = {"reserved": sorted(rs.sample(RESERVED, rs.range(1, 6)))}
        d2 = vk[rs.below(len(vk))]
        ops = [["compile", v[d], r1], ["compile", v[d]], ["compile", v[d2]], ["compile", v[d], r1], ["compile", v[d2], {"reserved": sorted(rs.sample(RESERVED, 3))}], ["compile", v[d]]]
        names = [d + "+reserved", d, d2, d + "+reserved", d2 + "+reserved", d]
    elif grp == "R":
        # the SAME class object compiled again after a rejected attempt (a module-level flag guards the user error)
        rk = sorted(pool.RETRY)
        rep, ri = divmod(j, len(rk))
        r = rk[ri]
        rs = rng.Stream(seed, "C11", "R", j)
        hs = hss[(ri + rep) % nh]
        ops = [["define_keep", r, pool.RETRY[r]], ["compile_mod", r], ["setflag", r, False], ["compile_mod", r], ["compile_mod", r]]
        names = ["define " + r, r + "(flag set)", "clear flag", r, r]
        if rep:
            # interleave other compilations and a second rejected attempt
            d2 = vk[rs.below(len(vk))]
            ops[3:3] = [["compile", v[d2]]]
            names[3:3] = [d2]
            if rs.below(2):
                ops += [["setflag", r, True], ["compile_mod", r], ["setflag", r, False], ["compile_mod", r]]
                names += ["set flag", r + "(flag set)", "clear flag", r]
    elif grp == "V":
        rep, ch = divmod(j, n_chunks(len(vk)))
        circ = euler_circuit(seed, rep, vk)
        names = circ[ch * V_CHUNK : (ch + 1) * V_CHUNK + 1]  # (chunks overlap in one design: no pair is lost at a cut)
        hs = hss[(rep + ch) % nh]
        ops = [["compile", v[k]] for k in names]
    elif grp == "B":
        rs = rng.Stream(seed, "C11", "history", j)
        hs = hss[rs.below(nh)]
        n = rs.range(10, 36)
        ops = []
        names = []
        rej_w = rs.choice([2, 5, 8])
        for _ in range(n):
            c = rs.below(20)
            if c < 19 - 2 * rej_w:
                k = vk[rs.below(len(vk))]
                if rs.below(5) == 0:
                    ops.append(["compile", v[k], {"reserved": sorted(rs.sample(RESERVED, rs.range(1, 4)))}])
                    names.append(k + "+reserved")
                else:
                    ops.append(["compile", v[k]])
                    names.append(k)
            elif c < 19:
                k = pk[rs.below(len(pk))]
                ops.append(["compile", p[k][1]])
                names.append(k)
                if rs.below(2):  # bias: a valid or context-invalid design directly after the rejection
                    k2 = (vk + ctxinv)[rs.below(len(vk) + len(ctxinv))]
                    ops.append(["compile", v[k2] if k2 in v else p[k2][1]])
                    names.append(k2)
            else:
                ops.append(["gc"])
                names.append("gc")
        k = vk[rs.below(len(vk))]
        ops += [["compile", v[k]], ["compile", v[k]]]
        names += [k, k]
        if rs.below(3) == 0:
            same_file(ops)
    else:
        allsrc = all_sources()
        d = (vk + pk)[j]
        v = allsrc
        g0 = golden(hss[0], v[d])
        res.update(shape=f"C/{d}", names=[d], nrej=0, nacc=1, dirty=[], sites=[])
        # two forks of the same interpreter
        again = pristine.get(hss[0]).call(FN, {"ops": [["compile", v[d]]], "probe": False})[0]
        if again.get("sha") != g0.get("sha") or again["st"] != g0["st"]:
            res.update(status="violation", vclass="fork-nondeterministic", detail={"design": d}, payload={"kind": "C", "design": d, "source": v[d], "hashseeds": [hss[0], hss[0]]})
            return res
        for hs in hss[1:]:
            g = golden(hs, v[d])
            if g["st"] != g0["st"] or g.get("sha") != g0.get("sha"):
                det = {"design": d, "hashseed_a": hss[0], "hashseed_b": hs, "a": {k: g0.get(k) for k in ("st", "sha", "msg")}, "b": {k: g.get(k) for k in ("st", "sha", "msg")}}
                res.update(status="violation", vclass="hashseed-dependent-output", detail=det, payload={"kind": "C", "design": d, "source": v[d], "hashseeds": [hss[0], hs]})
                return res
        res.update(status="ok", hashseeds=len(hss))
        return res
    vclass, det, outs = check_history(hs, ops)
    dirty = set()
    sites = set()
    for o in outs:
        if o["st"] == "rejected":
            for g in o.get("dirty", []):
                dirty.add(g)
            if o.get("site"):
                sites.add(tuple(o["site"]))
    res.update(
        shape=f"{grp}/" + hashlib.sha256("|".join(names).encode()).hexdigest()[:12],
        names=names,
        hashseed=hs,
        nrej=sum(1 for o in outs if o["st"] == "rejected"),
        nacc=sum(1 for o in outs if o["st"] == "ok"),
        dirty=sorted(dirty),
        sites=sorted(sites),
    )
    if vclass:
        det["names"] = names
        res.update(status="violation", vclass=vclass, detail=det, payload={"kind": "H", "hashseed": hs, "ops": ops, "names": names})
    else:
        res["status"] = "ok"
    return res


def replay(payload):
    _golden.clear()
    if payload["kind"] == "C":
        a, b = payload["hashseeds"]
        ga = pristine.get(a).call(FN, {"ops": [["compile", payload["source"]]], "probe": False})[0]
        gb = pristine.get(b).call(FN, {"ops": [["compile", payload["source"]]], "probe": False})[0]
        if ga["st"] != gb["st"] or ga.get("sha") != gb.get("sha"):
            return ("fork-nondeterministic" if a == b else "hashseed-dependent-output"), {"a": ga.get("sha"), "b": gb.get("sha")}
        return "ok", {}
    vclass, det, outs = check_history(payload["hashseed"], payload["ops"])
    return vclass or "ok", det


def shrink(payload, r):
    """drop operations before the failing one while the same class persists at the (shifted) failing op"""
    if payload["kind"] != "H":
        return payload
    ops = list(payload["ops"])
    names = list(payload["names"])
    hs = payload["hashseed"]
    vclass = r["vclass"]
    fail = r["detail"]["op_index"]
    ops = ops[: fail + 1]
    names = names[: fail + 1]
    i = 0
    while i < len(ops) - 1:
        cand = ops[:i] + ops[i + 1 :]
        c, det, _ = check_history(hs, cand)
        if c == vclass and det["op_index"] == len(cand) - 1:
            ops = cand
            names = names[:i] + names[i + 1 :]
        else:
            i += 1
    return {"kind": "H", "hashseed": hs, "ops": ops, "names": names}


def finding_key(r):
    """specific shape of a known finding: (class, minimal cause).  Filled from known_findings.json keys."""
    d = r.get("detail") or {}
    if r.get("vclass") == "hashseed-dependent-output":
        return f"C11:hashseed:{d.get('design')}"
    return None


ASSUMPTIONS = [
    "a successful compilation is part of the history too (group V: all ordered pairs of valid designs); "
    "fault model = rejected compilations caused by real user errors planted at marked sites of valid designs (every pipeline stage); "
    "exceptions no design can provoke (KeyboardInterrupt, MemoryError) are out of scope",
    "design pool is hand-written (see vf/gen/pool.py); histories are sequences over pool designs and their planted variants",
    "pristine interpreter = fresh process that imported cohdl and cohdl.std only; every history runs in a fork of it",
]


def evidence(results, tier):
    v, p = tables()
    hist = [r for r in results if r.get("group") in ("A", "A2", "B", "O", "R", "V")]
    nontriv = {r["shape"] for r in hist if r.get("nrej", 0) >= 1 and r.get("nacc", 0) >= 1}
    dirty = {}
    sites = {}
    for r in hist:
        for g in r.get("dirty", []):
            dirty[g] = dirty.get(g, 0) + 1
        for s in r.get("sites", []):
            k = f"{s[0]}:{s[1]}"
            sites[k] = sites.get(k, 0) + 1
    sample = None
    for want in ("B", "A", "A2", "O"):
        for r in hist:
            if r.get("group") == want and r.get("nrej", 0) >= 1:
                sample = {"run": r["idx"], "hashseed": r.get("hashseed"), "history": r["names"]}
                break
        if sample:
            break
    if sample is None and hist:
        sample = {"run": hist[0]["idx"], "hashseed": hist[0].get("hashseed"), "history": hist[0]["names"]}
    return {
        "evaluations": len(results),
        "distinct_nontrivial": len(nontriv),
        "rule": "one evaluation = one history of compilations executed in a fork of a pristine interpreter under a chosen PYTHONHASHSEED, "
        "each compile compared with the same source compiled alone in a fresh fork (group A: every (valid design, planted rejection) pair as "
        "[reject, compile, compile]; group V: every ordered pair of valid designs adjacent once, no rejection; group B: sampled histories of 4..12 operations; group C: goldens of each valid design across hash seeds and across two forks); "
        "distinct = distinct operation-name sequences; non-trivial = at least one rejected and one accepted compilation in the history",
        "samples": [sample] if sample else [],
        "valid_designs": len(v),
        "ordered_pairs_of_valid_designs_adjacent_without_a_rejection(group V)": sum(len(r["names"]) - 1 for r in hist if r.get("group") == "V"),
        "planted_rejections": len(p),
        "histories": len(hist),
        "compilations": sum(r.get("nrej", 0) + r.get("nacc", 0) for r in hist),
        "faults_fired": {"rejected_compilations": sum(r.get("nrej", 0) for r in hist), "distinct_rejection_sites(innermost cohdl frame)": len(sites)},
        "rejection_sites": dict(sorted(sites.items(), key=lambda kv: -kv[1])[:40]),
        "globals_dirty_when_a_rejection_unwound": dirty,
        "hash_seeds": hash_seeds(_seed[0], tier),
        "real_components": ["cohdl compiler end to end (class definition, front end, IR, back end, std)", "CPython hash randomisation"],
        "model_components": ["pristine fork server", "design pool and planted-error catalogue", "fresh-interpreter oracle"],
    }


def acceptance(cov, tier):
    probs = []
    if cov["faults_fired"]["rejected_compilations"] == 0:
        probs.append("no rejected compilation happened")
    return probs
