"""C02 — operators and expressions compute their documented value at run time (thin, see DESIGN 1).

One run: a seeded typed expression tree (all operators of the statement) drives one output from a concurrent context
and one from a clocked context of the same entity; compiled by the real compiler, executed in VSIM.  The operand
valuations are applied as a SEQUENCE (every valuation when the total operand width is <= 10 bits, order seeded;
otherwise corner values + random): the concurrent output must equal f(current operands) after settling under every
process order, the clocked output f(operands at the edge); the read-before-write monitor is on, so nothing may depend
on an earlier valuation.  The value oracle is an independent integer model of the documented rules (vf/gen/expr.py).
What the simulator adds is independence from process order / operand history; the search over shapes and values is
plain seeded input generation.
"""
from __future__ import annotations

import hashlib

from vf.core import rng
from vf.gen import expr, render
from vf.tb import dut as dutm

PROP = "C02"
LEVEL = "exploration"
TARGETS = [("U", 4), ("U", 3), ("U", 8), ("U", 7), ("U", 5), ("S", 4), ("S", 6), ("S", 8), ("S", 5), ("BV", 4), ("BV", 7), ("BV", 2), ("BV", 6), ("Bit",), ("bool",), ("U", 16), ("S", 10), ("U", 2), ("S", 2), ("U", 1)]


def gen_case(seed, idx, tier):
    rs = rng.Stream(seed, "C02", "expr", idx)
    wide = rs.below(8) == 0
    g = expr.Gen(rs, max_bits=10 if not wide else 40, wide=wide)
    t = rs.choice(TARGETS)
    if wide and rs.below(2):
        t = rs.choice([("U", 33), ("S", 33), ("U", 34), ("U", 49)])
    e = g.gen(t)
    return e, t


def render_src(e, t):
    ports = expr.ports_used(e)
    ot = "Bit" if t[0] in ("Bit", "bool") else expr.tstr(t)
    L = [
        "from __future__ import annotations",
        "import cohdl",
        "from cohdl import Bit, BitVector, Unsigned, Signed, Port, Signal, Variable, Null, Full, true, false",
        "from cohdl import std, op",
        "",
        "class E(cohdl.Entity):",
        "    clk = Port.input(Bit)",
    ]
    for n in sorted(ports):
        L.append(f"    {n} = Port.input({expr.tstr(ports[n])})")
    L += [
        f"    oc = Port.output({ot})",
        f"    oq = Port.output({ot})",
        "",
        "    def architecture(self):",
        "        @std.concurrent",
        "        def conc():",
        f"            self.oc <<= {expr.r(e)}",
        "        @std.sequential(std.Clock(self.clk))",
        "        def seq():",
        f"            self.oq <<= {expr.r(e)}",
    ]
    picks = expr.rt_index_picks(e)
    if picks:
        # late use: every run-time-indexed element whose index is a plain operand is bound to a name while the index
        # sits in a variable; the variable is changed before the element is used -- the element selected when the
        # expression was evaluated has to be used (the index is part of the expression's value, not a live reference)
        L.insert(L.index(f"    oq = Port.output({ot})") + 1, f"    ol = Port.output({ot})")
        idx_ports = sorted({p[3][2] for p in picks})
        L += ["        @std.sequential(std.Clock(self.clk))", "        def late():"]
        for n in idx_ports:
            L.append(f"            v_{n} = Variable(self.{n})")
        try:
            for k, p in enumerate(picks):
                expr.SUBST[id(p[3])] = f"v_{p[3][2]}"
                L.append(f"            x{k} = {expr.r(p)}")
                del expr.SUBST[id(p[3])]
            for n in idx_ports:
                L.append(f"            v_{n} @= v_{n} + 1")
            for k, p in enumerate(picks):
                expr.SUBST[id(p)] = f"x{k}"
            L.append(f"            self.ol <<= {expr.r(e)}")
        finally:
            expr.SUBST.clear()
    chains = expr.slice_chains(e)
    if chains:
        # a slice of a slice bound to a name, and a cast taken from that same Python object: both are emitted (the expression
        # uses the view, another output the cast) and must name the same bits
        node = chains[0]
        w = expr.width(node[1])
        L.insert(L.index(f"    oq = Port.output({ot})") + 1, f"    onv = Port.output({ot})")
        L.insert(L.index(f"    oq = Port.output({ot})") + 1, f"    ov = Port.output(Unsigned[{w}])")
        L += ["        @std.sequential(std.Clock(self.clk))", "        def named():", f"            n0 = {expr.r(node)}", "            c0 = n0.unsigned"]
        try:
            expr.SUBST[id(node)] = "n0"
            L.append(f"            self.onv <<= {expr.r(e)}")
        finally:
            expr.SUBST.clear()
        L.append("            self.ov <<= c0")
    lp = local_port(e)
    if lp:
        # one vector operand is copied into a Signal constructed INSIDE the process; every use of the operand (whole, sliced,
        # indexed, cast) then goes through that local object and must see the value given to it in this activation
        L.insert(L.index(f"    oq = Port.output({ot})") + 1, f"    ox = Port.output({ot})")
        L += ["        @std.sequential(std.Clock(self.clk))", "        def localsig():", f"            x = Signal[{expr.tstr(ports[lp])}](self.{lp})"]
        try:
            for nd in expr.port_nodes(e, lp):
                expr.SUBST[id(nd)] = "x"
            L.append(f"            self.ox <<= {expr.r(e)}")
        finally:
            expr.SUBST.clear()
    return "\n".join(L) + "\n"


def local_port(e):
    ports = expr.ports_used(e)
    cands = sorted(n for n, t in ports.items() if t[0] in ("U", "S", "BV") and t[1] >= 2)
    return cands[0] if cands else None


def valuations(rs, ports):
    names = sorted(ports)
    total = sum(expr.width(ports[n]) for n in names)
    if total <= 10:
        allv = list(range(1 << total))
        seq = rs.permute(allv)
        out = []
        for v in seq:
            env = {}
            for n in names:
                w = expr.width(ports[n])
                env[n] = v & expr.mask(w)
                v >>= w
            out.append(env)
        return out, True
    out = []
    for _ in range(96):
        env = {}
        for n in names:
            w = expr.width(ports[n])
            c = rs.below(6)
            env[n] = 0 if c == 0 else expr.mask(w) if c == 1 else (1 << (w - 1)) if c == 2 else (1 << (w - 1)) - 1 if c == 3 else rs.bits(w)
        out.append(env)
    return out, False


def simulate(e, t, design, seed, idx):
    rs = rng.Stream(seed, "C02", "vals", idx)
    ports = expr.ports_used(e)
    vals, exhaustive = valuations(rs, ports)
    d = dutm.Dut(design, rng.derive(seed, "C02", "order", idx), "c02")
    d.start(dict(vals[0]))
    outs = ("oc", "oq", "ol") if expr.rt_index_picks(e) else ("oc", "oq")
    chains = expr.slice_chains(e)
    if chains:
        outs = outs + ("onv",)
    if local_port(e):
        outs = outs + ("ox",)
    for k, env in enumerate(vals):
        want = expr.ev(e, env)
        d.clock(env)
        if chains and d.get("ov") != expr.ev(chains[0], env):
            return "wrong-value", {"output": "cast of a named slice-of-slice view", "step": k, "operands": env, "expected": expr.ev(chains[0], env), "got": d.get("ov"), "view": expr.r(chains[0])}, len(vals), exhaustive
        for which in outs:
            got = d.get(which)
            if got != want:
                return "wrong-value", {"output": {"oc": "concurrent", "oq": "clocked", "ol": "clocked, run-time-indexed elements bound before their index variable changes", "ox": "clocked, one operand read through a Signal constructed inside the process", "onv": "clocked, slice-of-slice view bound to a name and used next to its cast"}[which], "step": k, "operands": env, "expected": want, "got": got}, len(vals), exhaustive
        d.half()
        if d.get("oc") != want:
            return "wrong-value", {"output": "concurrent", "step": k, "phase": "inactive-edge", "operands": env, "expected": want, "got": d.get("oc")}, len(vals), exhaustive
    pr = d.problems()
    if pr:
        return pr[0], pr[1], len(vals), exhaustive
    return "ok", {"deltas": d.sim.delta_count, "reorders": d.sim.reorders}, len(vals), exhaustive


def evaluate(seed, idx, tier):
    e, t = gen_case(seed, idx, tier)
    src = render_src(e, t)
    info = {"ops": sorted(expr.ops_in(e, set())), "nodes": expr.count(e), "type": list(t), "expr": expr.r(e), "late_use": len(expr.rt_index_picks(e))}
    try:
        design = dutm.compile_design(src)
    except render.Rejected as ex:
        return "rejected", None, {"reason": f"{ex.exc_type}: {ex.message[:100]}"}, info
    out = dutm.guarded(lambda: simulate(e, t, design, seed, idx))
    if len(out) == 2:
        if out[0] == "legality":
            return "skipped", None, {"reason": "illegal-vhdl:" + str(out[1].get("rule")) + " " + str(out[1].get("msg"))[:120]}, info
        return "accepted", out[0], dict(out[1], expr=info["expr"]), info
    st, det, n, exh = out
    info.update(valuations=n, exhaustive=exh)
    if st != "ok":
        return "accepted", st, dict(det, expr=info["expr"], type=list(t)), info
    info.update(det)
    return "accepted", None, {}, info


def run_one(seed, idx, tier):
    try:
        outcome, vclass, det, info = evaluate(seed, idx, tier)
    except Exception as ex:  # model / generator problem: a harness error, never a violation
        import traceback

        return {"idx": idx, "status": "harness", "vclass": "generator-or-model-exception", "detail": {"traceback": traceback.format_exc()[-1500:]}}
    res = {"idx": idx, "shape": hashlib.sha256(repr(info["ops"]).encode()).hexdigest()[:12] + f":{info['type']}", "info": info, "outcome": outcome}
    if outcome == "skipped":
        res.update(status="skipped", reason=det["reason"])
    elif outcome == "rejected":
        res.update(status="ok", reason=det["reason"])
    elif vclass:
        res.update(status="violation", vclass=vclass, detail=det, payload={"seed": seed, "idx": idx, "tier": tier, "expr": info["expr"]})
    else:
        res["status"] = "ok"
    return res


def replay(payload):
    outcome, vclass, det, info = evaluate(payload["seed"], payload["idx"], payload["tier"])
    return vclass or outcome, det


def plan(tier):
    return 4000 if tier == "quick" else 200000


def finding_key(r):
    return None


ASSUMPTIONS = [
    "thin property: the mechanism is the translation; the simulator contributes order / history independence (operand sequences, process order, read-before-write monitor), the value search is plain seeded generation",
    "integer model of the documented rules is independent of cohdl's own Python-level arithmetic",
    "preconditions kept by construction: divisors are x|1, run-time indices cannot address beyond the vector, int literals are representable",
    "a compile-time rejection is 'not explored' (the statement does not promise acceptance); counted and listed by reason",
]


def evidence(results, tier):
    acc = [r for r in results if r.get("outcome") == "accepted" and r["status"] == "ok"]
    ops = {}
    for r in acc:
        for o in r["info"]["ops"]:
            ops[o] = ops.get(o, 0) + 1
    rej = {}
    for r in results:
        if r.get("outcome") in ("rejected", "skipped"):
            rej[r["reason"][:90]] = rej.get(r["reason"][:90], 0) + 1
    nontriv = {r["shape"] for r in acc if r["info"]["nodes"] >= 3}
    sample = None
    for r in acc:
        if r["info"]["nodes"] >= 6:
            sample = {"run": r["idx"], "expression": r["info"]["expr"], "result_type": r["info"]["type"], "valuations": r["info"]["valuations"], "all_valuations": r["info"]["exhaustive"]}
            break
    return {
        "evaluations": len(results),
        "distinct_nontrivial": len(nontriv),
        "rule": "one evaluation = one generated expression compiled into a concurrent and a clocked context and simulated over a sequence of operand valuations (all valuations when <= 10 operand bits); "
        "distinct = distinct (operator set, result type); non-trivial = accepted with >= 3 nodes",
        "samples": [sample] if sample else [],
        "accepted": len(acc),
        "with_late_use_context(run-time-indexed element bound, index variable changed, then used)": len([r for r in acc if r["info"].get("late_use")]),
        "exhaustive_over_operands": len([r for r in acc if r["info"].get("exhaustive")]),
        "valuations_simulated": sum(r["info"].get("valuations", 0) for r in acc),
        "operator_histogram": dict(sorted(ops.items())),
        "rejected_or_illegal_not_explored": dict(sorted(rej.items(), key=lambda kv: -kv[1])[:15]),
        "faults_fired": {"process_order_permutations": sum(r["info"].get("reorders", 0) for r in acc), "read_before_write_monitor": "on"},
        "real_components": ["cohdl compiler (operator lowering, cast insertion, VHDL back end)", "emitted VHDL"],
        "model_components": ["VSIM + ieee re-implementation", "integer model of the documented operator rules", "expression generator"],
    }


def acceptance(cov, tier):
    if cov["accepted"] < cov["evaluations"] // 3:
        return [f"only {cov['accepted']} of {cov['evaluations']} expressions were accepted"]
    return []
