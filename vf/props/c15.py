"""C15 — SyncFlag and Mailbox hand over every event exactly once.

Wrapper entities around std.SyncFlag / std.Mailbox (every tx/rx delay pair in 0..3, producer and consumer in
one process or in two contexts, consumer as plain function / `await receive()` / `async with`, guarded and
unguarded set) are compiled by the real compiler and simulated in VSIM.  Seeded agents decide per clock
whether the producer attempts a set/send (unique payloads) and whether the consumer is willing; faults are
stalls of either context through its step condition (uniform, and aligned to the delay line right after a
set or a clear), resets in mid hand-over, process order, input offsets.  The oracle is evaluated while the
run proceeds over the recorded history of events:
   effective set  = an attempt made while the PRODUCER's own view said clear
   (1) every effective set is consumed exactly once, payloads unmodified and in order
   (2) a set attempted while the producer sees the flag set has no effect
   (3) the producer sees clear again only after the consumer cleared (no second effective set while one is outstanding)
   (4) the consumer never consumes without an outstanding set (no phantom / repeated observation)
   (5) bounded progress once both sides are willing and no fault is active
"""
from __future__ import annotations

import hashlib

from vf.core import rng
from vf.gen import render
from vf.tb import dut as dutm

PROP = "C15"
LEVEL = "exploration"
W = 8


def configs():
    out = []
    for api in ("flag", "mailbox"):
        for tx in range(4):
            for rx in range(4):
                layouts = ["two_proc"] + (["one_proc"] if tx == 0 and rx == 0 else [])
                for layout in layouts:
                    cons = ["sync", "sync_uc", "receive", "async_with", "async_with_ret", "burst", "burst_with"] if api == "flag" else ["sync", "sync_uc", "mb_receive", "mb_exec_after", "mb_burst"]
                    if layout == "one_proc":
                        cons = ["sync"]
                    for c in cons:
                        for guarded in ((True, False) if api == "flag" else (True,)):
                            for reset in (False, True):
                                out.append({"api": api, "tx": tx, "rx": rx, "layout": layout, "consumer": c, "guarded": guarded, "reset": reset})
    return out


CONFIGS = configs()
for _i, _c in enumerate(CONFIGS):
    # in every other two-process design the consumer context is declared before the producer context
    _c["cfirst"] = _c["layout"] == "two_proc" and (_i // 2) % 2 == 1


def render_src(cfg):
    tx, rx = cfg["tx"], cfg["rx"]
    L = [
        "from __future__ import annotations",
        "import cohdl",
        "from cohdl import Bit, BitVector, Unsigned, Port, Signal, Variable, Null, Full, true, false",
        "from cohdl import std",
        "",
        "class E(cohdl.Entity):",
        "    clk = Port.input(Bit)",
        "    rst = Port.input(Bit)",
        "    p_en = Port.input(Bit)",
        "    c_en = Port.input(Bit)",
        "    p_try = Port.input(Bit)",
        f"    p_data = Port.input(Unsigned[{W}])",
        "    c_take = Port.input(Bit)",
        "    att = Port.output(Bit, default=False)",
        "    att_clear = Port.output(Bit, default=False)",
        f"    att_data = Port.output(Unsigned[{W}], default=0)",
        "    got = Port.output(Bit, default=False)",
        f"    got_data = Port.output(Unsigned[{W}], default=0)",
        "    v_set = Port.output(Bit)",
        "    v_clear = Port.output(Bit)",
    ] + ([
        "    got2 = Port.output(Bit, default=False)",
        f"    got2_data = Port.output(Unsigned[{W}], default=0)",
    ] if is_burst(cfg) else []) + [
        "",
        "    def architecture(self):",
        "        clk = std.Clock(self.clk)",
    ]
    rst = ", std.Reset(self.rst)" if cfg["reset"] else ""
    L.append(f"        pctx = std.SequentialContext(clk{rst}, step_cond=lambda: self.p_en)")
    L.append(f"        cctx = std.SequentialContext(clk{rst}, step_cond=lambda: self.c_en)")
    if cfg["api"] == "flag":
        L.append(f"        flag = std.SyncFlag(tx_delay={tx}, rx_delay={rx})")
        L.append(f"        data = Signal[Unsigned[{W}]](0)")
        is_clear, is_set, clear = "flag.is_clear()", "flag.is_set()", "flag.clear()"
        rd = "data"
    else:
        L.append(f"        mb = std.Mailbox[Unsigned[{W}]](tx_delay={tx}, rx_delay={rx})")
        is_clear, is_set, clear = "mb.is_clear()", "mb.is_set()", "mb.clear()"
        rd = "mb.data()"
    L += [
        "        @std.concurrent",
        "        def views():",
        f"            self.v_set <<= {is_set}",
        f"            self.v_clear <<= {is_clear}",
    ]
    prod = [
        "if self.p_try:",
        "    self.att ^= True",
        f"    self.att_clear <<= {is_clear}",
        "    self.att_data <<= self.p_data",
    ]
    if cfg["api"] == "flag":
        prod += [f"    if {is_clear}:", "        data.next = self.p_data"]
        if cfg["guarded"]:
            prod += ["        flag.set()"]
        else:
            prod += ["    flag.set()"]
    else:
        prod += [f"    if {is_clear}:", "        mb.send(self.p_data)"]
    cons_sync = [
        f"if self.c_take and {is_set}:",
        "    self.got ^= True",
        f"    self.got_data <<= {rd}",
        f"    {clear}",
    ]
    if cfg["layout"] == "one_proc":
        L += ["        @pctx", "        def both():"]
        L += ["            " + l for l in prod + cons_sync]
    else:
        PL = ["        @pctx", "        def producer():"] + ["            " + l for l in prod]
        if not cfg.get("cfirst"):
            L += PL
        c = cfg["consumer"]
        if c == "sync":
            L += ["        @cctx", "        def consumer():"] + ["            " + l for l in cons_sync]
        elif c == "sync_uc":
            # the consumer clears in every step in which it is willing, also when it sees no event (clearing a flag that
            # is seen as clear has no effect: an event still on its way through the tx delay must not be lost)
            L += ["        @cctx", "        def consumer():"] + ["            " + l for l in [
                "if self.c_take:",
                f"    if {is_set}:",
                "        self.got ^= True",
                f"        self.got_data <<= {rd}",
                f"    {clear}",
            ]]
        elif c == "receive":
            L += ["        @cctx", "        async def consumer():", "            await self.c_take", "            await flag.receive()", "            self.got ^= True", f"            self.got_data <<= {rd}"]
        elif c == "async_with":
            L += ["        @cctx", "        async def consumer():", "            await self.c_take", "            async with flag:", "                self.got ^= True", f"                self.got_data <<= {rd}"]
        elif c == "async_with_ret":
            # the with-body sits in a sub-coroutine and may leave through a return: the flag is cleared on BOTH paths
            L += ["        async def handle():", "            async with flag:", "                self.got ^= True", f"                self.got_data <<= {rd}", "                if self.c_take:", "                    return", "                self.got_data <<= " + rd]
            L += ["        @cctx", "        async def consumer():", "            await self.c_take", "            await handle()"]
        elif c == "mb_exec_after":
            # the receive runs inside an executor that the context converts after its own body (std.Executor.make_after): the
            # flag's delay lines are then created while those executors are being converted
            # (the event counts as consumed where receive() returns, i.e. inside the executor; exec() hands the value back later)
            L += ["        async def fetch():", "            d = await mb.receive()", "            self.got ^= True", "            self.got_data <<= d", "            return d", f"        fetcher = std.Executor.make_after(fetch, result=Variable[Unsigned[{W}]]())"]
            L += ["        @cctx", "        async def consumer():", "            await self.c_take", "            await fetcher.ready()", "            await fetcher.exec()"]
        elif c == "burst":
            # two hand-overs in one round with nothing between them: the second one must wait for a NEW event (the clear of the
            # first one is not visible yet in the clock in which it is issued)
            L += ["        @cctx", "        async def consumer():", "            await self.c_take", "            await flag.receive()", "            self.got ^= True", f"            self.got_data <<= {rd}",
                  "            await flag.receive()", "            self.got2 ^= True", f"            self.got2_data <<= {rd}"]
        elif c == "burst_with":
            L += ["        @cctx", "        async def consumer():", "            await self.c_take", "            await flag.receive()", "            self.got ^= True", f"            self.got_data <<= {rd}",
                  "            async with flag:", "                self.got2 ^= True", f"                self.got2_data <<= {rd}"]
        elif c == "mb_burst":
            L += ["        @cctx", "        async def consumer():", "            await self.c_take", "            d = await mb.receive()", "            self.got ^= True", "            self.got_data <<= d",
                  "            e = await mb.receive()", "            self.got2 ^= True", "            self.got2_data <<= e"]
        elif c == "mb_receive":
            L += ["        @cctx", "        async def consumer():", "            await self.c_take", "            d = await mb.receive()", "            self.got ^= True", "            self.got_data <<= d"]
        if cfg.get("cfirst"):
            L += PL  # the consumer context is declared (and converted) before the producer context
    return "\n".join(L) + "\n"


def is_burst(cfg):
    return cfg["consumer"] in ("burst", "burst_with", "mb_burst")


def bound(cfg):
    return 2 * (cfg["tx"] + cfg["rx"]) + 8 + (6 if cfg["consumer"] == "mb_exec_after" else 0)


class History:
    """online oracle over the event history"""

    def __init__(self, cfg):
        self.cfg = cfg
        self.out = []  # outstanding effective sets (data, clock)
        self.sent = 0
        self.got = 0
        self.ineffective = 0
        self.events = []
        self.willing_since = None  # both sides willing, enabled, no reset since this clock
        self.last_progress = 0
        self.drop_on_reset = 0
        self.max_latency = 0

    def reset(self, k):
        self.drop_on_reset += len(self.out)
        self.out = []
        self.willing_since = None
        self.last_progress = k
        self.events.append((k, "reset"))

    def clock(self, k, o, p_step, c_step, both_willing):
        """o: outputs after edge k.  returns violation dict or None"""
        if p_step and o["att"] == 1:
            if o["att_clear"] == 1:
                if self.out:
                    return {"rule": "producer-saw-clear-while-event-outstanding", "clock": k, "outstanding": self.out[0], "new": o["att_data"]}
                self.out.append((o["att_data"], k))
                self.sent += 1
                self.events.append((k, "set", o["att_data"]))
                self.last_progress = k
            else:
                self.ineffective += 1
                self.events.append((k, "set-while-set"))
        for g, gd in (("got", "got_data"), ("got2", "got2_data")):
            # (got2: the second hand-over of a burst consumer; two observations in one clock are two consumed events)
            if not (c_step and o.get(g) == 1):
                continue
            if not self.out:
                return {"rule": "consumer-observed-event-without-outstanding-set", "clock": k, "observation": g, "data": o[gd], "events": self.events[-6:]}
            d, ks = self.out.pop(0)
            if ks >= k:
                return {"rule": "consumed-not-after-set", "clock": k, "set_clock": ks}
            if d != o[gd]:
                return {"rule": "payload-modified", "clock": k, "sent": d, "received": o[gd], "events": self.events[-6:]}
            self.got += 1
            self.max_latency = max(self.max_latency, k - ks)
            self.events.append((k, g, d))
            self.last_progress = k
        if (o["v_set"] == 1) == (o["v_clear"] == 1):
            return {"rule": "is_set-and-is_clear-not-complementary", "clock": k, "v_set": o["v_set"], "v_clear": o["v_clear"]}
        # bounded progress: both sides willing and undisturbed for longer than the bound without any event
        if both_willing:
            if self.willing_since is None:
                self.willing_since = k
            if k - max(self.willing_since, self.last_progress) > bound(self.cfg):
                return {"rule": "no-progress-within-bound", "clock": k, "bound": bound(self.cfg), "outstanding": list(self.out), "events": self.events[-6:]}
        else:
            self.willing_since = None
        return None


def gen_schedule(rs, cfg, n):
    """per-clock agent decisions and faults; reactive parts (aligned stalls) are resolved in simulate()"""
    pm = rs.below(4)
    cm = rs.below(4)
    stall_p = rs.below(3) == 0
    stall_c = rs.below(3) == 0
    aligned = rs.below(3) == 0
    resets = []
    if cfg["reset"] and rs.below(2):
        for _ in range(rs.range(1, 2)):
            resets.append((rs.range(5, n - 30), rs.range(1, 3)))
    steps = []
    for k in range(n):
        def dec(m):
            if m == 0:
                return 1
            if m == 1:
                return rs.below(2)
            if m == 2:
                return 1 if rs.below(5) == 0 else 0
            return 0 if rs.below(6) == 0 else 1

        st = {"p_try": dec(pm), "c_take": dec(cm), "p_en": 1, "c_en": 1}
        if stall_p and rs.below(7) == 0:
            st["_stall_p"] = rs.range(1, 5)
        if stall_c and rs.below(7) == 0:
            st["_stall_c"] = rs.range(1, 5)
        steps.append(st)
    # final phase: everybody willing, no faults -> bounded progress must hold
    for k in range(max(0, n - bound(cfg) - 6), n):
        steps[k] = {"p_try": 1, "c_take": 1, "p_en": 1, "c_en": 1}
    return {"steps": steps, "resets": resets, "aligned": aligned, "align_d": rs.range(0, cfg["tx"] + cfg["rx"] + 2), "align_len": rs.range(1, 4), "align_side": rs.below(2)}


def simulate(cfg, design, sched, order_seed, order_mode="uniform"):
    d = dutm.Dut(design, order_seed, "c15", order_mode=order_mode)
    H = History(cfg)
    steps = sched["steps"]
    n = len(steps)
    first = {"rst": 0, "p_en": 1, "c_en": 1, "p_try": 0, "p_data": 0, "c_take": 0}
    d.start(first)
    stall_p = stall_c = 0
    rst_left = 0
    resets = {k: l for k, l in sched["resets"]}
    align_at = {}  # clock -> (side, len)
    payload = 1
    fired = {"stall_p": 0, "stall_c": 0, "aligned_stall": 0, "reset": 0, "set_while_set": 0}
    quiet_since = 0
    for k in range(n):
        st = steps[k]
        if "_stall_p" in st and stall_p == 0:
            stall_p = st["_stall_p"]
        if "_stall_c" in st and stall_c == 0:
            stall_c = st["_stall_c"]
        if k in align_at:
            side, ln = align_at.pop(k)
            if side == 0:
                stall_p = max(stall_p, ln)
            else:
                stall_c = max(stall_c, ln)
            fired["aligned_stall"] += 1
        if k in resets:
            rst_left = resets[k]
            fired["reset"] += 1
        inp = {"p_try": st["p_try"], "c_take": st["c_take"], "p_data": payload & 0xFF, "p_en": 0 if stall_p else 1, "c_en": 0 if stall_c else 1, "rst": 1 if rst_left else 0}
        if stall_p:
            fired["stall_p"] += 1
        if stall_c:
            fired["stall_c"] += 1
        d.clock(inp)
        o = {x: d.get(x) for x in ("att", "att_clear", "att_data", "got", "got_data", "v_set", "v_clear") + (("got2", "got2_data") if is_burst(cfg) else ())}
        pr = d.problems()
        if pr:
            return pr[0], dict(pr[1], clock=k), H, fired, d
        if rst_left:
            H.reset(k)
            quiet_since = k + 1
        else:
            p_step = inp["p_en"] == 1
            c_step = inp["c_en"] == 1 if cfg["layout"] != "one_proc" else p_step
            disturbed = not p_step or not c_step or not st["p_try"] or not st["c_take"]
            if disturbed:
                quiet_since = k + 1
            before_sent, before_got = H.sent, H.got
            bad = H.clock(k, o, p_step, c_step, both_willing=(k - quiet_since) >= 1)
            if bad:
                return "handover", bad, H, fired, d
            if p_step and o["att"] == 1:
                payload += 1  # every attempted payload is unique
            if sched["aligned"] and (H.sent != before_sent or H.got != before_got):
                t = k + 1 + sched["align_d"]
                if t < n - bound(cfg) - 8:
                    align_at[t] = (sched["align_side"], sched["align_len"])
        d.half()
        if stall_p:
            stall_p -= 1
        if stall_c:
            stall_c -= 1
        if rst_left:
            rst_left -= 1
    fired["set_while_set"] = H.ineffective
    return "ok", {}, H, fired, d


def cfg_for(idx):
    return CONFIGS[idx % len(CONFIGS)]


def run_one(seed, idx, tier):
    cfg = cfg_for(idx)
    rs = rng.Stream(seed, "C15", "schedule", idx)
    n = rs.range(80, 200 if tier == "quick" else 400)
    sched = gen_schedule(rs, cfg, n)
    oseed = rng.derive(seed, "C15", "order", idx)
    mode = ("uniform", "uniform", "reverse", "stable")[rng.Stream(oseed, "mode").below(4)]
    key = repr(sorted(cfg.items()))
    res = {"idx": idx, "shape": hashlib.sha256(key.encode()).hexdigest()[:12], "cfg": cfg}
    src = render_src(cfg)
    try:
        design = dutm.compile_design(src, cache_key=key)
    except render.Rejected as e:
        res.update(status="harness", vclass="wrapper-rejected", detail={"reason": f"{e.exc_type}: {e.message[:300]}", "cfg": cfg})
        return res
    except Exception as e:
        st, det = dutm.guarded(lambda: (_ for _ in ()).throw(e))
        if st == "legality":
            res.update(status="skipped", reason="illegal-vhdl:" + str(det.get("rule")))
            return res
        res.update(status="violation", vclass=st, detail=det, payload={"cfg": cfg, "sched": sched, "order_seed": oseed, "order_mode": mode, "source": src})
        return res
    out = dutm.guarded(lambda: simulate(cfg, design, sched, oseed, mode))
    if len(out) == 2:
        status, detail = out
        res.update(status="violation", vclass=status, detail=detail, payload={"cfg": cfg, "sched": sched, "order_seed": oseed, "order_mode": mode, "source": src})
        return res
    status, detail, H, fired, d = out
    res["stats"] = dict(d.stats(), sent=H.sent, got=H.got, dropped_by_reset=H.drop_on_reset, max_latency=H.max_latency, **{"f_" + k: v for k, v in fired.items()})
    if status != "ok":
        res.update(status="violation", vclass=status + ":" + str(detail.get("rule", "")), detail=detail, payload={"cfg": cfg, "sched": sched, "order_seed": oseed, "order_mode": mode, "source": src})
    else:
        res["status"] = "ok"
    return res


def replay(payload):
    cfg = payload["cfg"]
    try:
        design = dutm.compile_design(render_src(cfg))
    except render.Rejected as e:
        return "wrapper-rejected", {"reason": str(e)}
    out = dutm.guarded(lambda: simulate(cfg, design, payload["sched"], payload["order_seed"], payload.get("order_mode", "uniform")))
    if len(out) == 2:
        return out
    status, detail = out[0], out[1]
    if status == "ok":
        return "ok", {}
    return status + ":" + str(detail.get("rule", "")), detail


def plan(tier):
    return len(CONFIGS) * (4 if tier == "quick" else 150)


def finding_key(r):
    return None


ASSUMPTIONS = [
    "VSIM stands in for a VHDL simulator; one clock drives both contexts (the property is stated per step of one clock)",
    "effective set = attempt while the producer's own is_clear() view is true (exactly the wording of the statement); the wrapper reports that view",
    "a stalled context (step condition false) does not step; pulses of a stalled context are not counted",
    "consumer style sync_uc clears in every willing step, also when it sees no event: clearing a flag seen as clear has no effect (an event still in the tx delay line must arrive)",
    "after a reset an outstanding event may be dropped (the model forgets it); nothing may be delivered that was not set after the reset",
    "bounded progress: with both sides willing and no fault, the next event happens within 2*(tx+rx)+8 clocks",
]


def evidence(results, tier):
    ok = [r for r in results if r["status"] == "ok"]
    agg = {}
    for r in results:
        dutm.add_stats(agg, r.get("stats") or {})
    nontriv = {(r["shape"], min(r["stats"]["got"], 3), r["stats"]["f_stall_c"] > 0, r["stats"]["f_stall_p"] > 0, r["stats"]["f_reset"] > 0) for r in ok if r["stats"]["got"] >= 2}
    sample = None
    for r in ok:
        if r["stats"]["got"] >= 3 and r["cfg"]["tx"] + r["cfg"]["rx"] >= 2:
            sample = {"run": r["idx"], "config": r["cfg"], "events_delivered": r["stats"]["got"], "stall_clocks": [r["stats"]["f_stall_p"], r["stats"]["f_stall_c"]], "wrapper_source": render_src(r["cfg"]).split("def architecture(self):")[1]}
            break
    return {
        "evaluations": len(results),
        "distinct_nontrivial": len(nontriv),
        "rule": "one evaluation = one wrapper configuration (api x tx/rx delay x layout x consumer style x guarded x reset: %d configurations) simulated under one seeded schedule of "
        "producer attempts / consumer willingness / stalls / resets / process order; distinct = distinct (configuration, fault kinds fired, delivered-count class); non-trivial = >= 2 events handed over" % len(CONFIGS),
        "samples": [sample] if sample else [],
        "configurations": len(CONFIGS),
        "simulated_clocks": agg.get("clocks", 0),
        "delta_cycles": agg.get("deltas", 0),
        "events_set": agg.get("sent", 0),
        "events_consumed": agg.get("got", 0),
        "events_dropped_by_reset": agg.get("dropped_by_reset", 0),
        "faults_fired": {k[2:]: v for k, v in agg.items() if k.startswith("f_")} | {"process_order_permutations": agg.get("reorders", 0), "input_glitch": agg.get("off_glitch", 0)},
        "real_components": ["cohdl compiler", "std.SyncFlag / std.Mailbox / std.SequentialContext / DelayLine as shipped", "emitted VHDL"],
        "model_components": ["VSIM", "producer/consumer agents", "event-history oracle"],
    }


def acceptance(cov, tier):
    probs = []
    ff = cov["faults_fired"]
    for k in ("stall_p", "stall_c", "aligned_stall", "reset", "set_while_set"):
        if not ff.get(k):
            probs.append(f"fault kind {k} never fired")
    if cov["events_consumed"] == 0:
        probs.append("no event was ever handed over")
    return probs
