"""C04 — reset returns every context to its power-up behaviour from any state (fault enumeration).

One evaluation = one generated coroutine design with a std.Reset of one of the four kinds.  A
fault-free run is recorded (with a simulator snapshot before every clock); then FOR EVERY CLOCK
POSITION k of that run the simulation is restored to k and the reset fault is injected there
(seeded duration; for asynchronous resets also between the edges and as pulses that cover no edge),
followed by a fresh seeded input sequence.  Oracles: (i) the reference model with the reset rule of
the statement, compared every clock and after every reset change; (ii) for designs in which every
object has a default: the trace after release equals the trace of a power-up run of the same design
fed the same inputs (metamorphic, independent of the reference model).
"""
from __future__ import annotations

import hashlib

from vf.core import rng
from vf.gen import coro, render
from vf.props import c01
from vf.ref import coro_ref
from vf.tb import bench
from vf.vsim import elab, kernel
from vf.vsim.ieee import SimError
from vf.vsim.parse import VhdlError, Unsupported

PROP = "C04"
LEVEL = "fault_enumeration"
KINDS = ("sync_high", "sync_low", "async_high", "async_low")
ASSUMPTIONS = [
    "VSIM stands in for a VHDL simulator (conformance-checked against the upstream testbenches)",
    "reset rule of the reference: while reset is active (at the active edge for sync, immediately for async) every driven object "
    "with a default that is not noreset takes its default, the coroutine returns to its first state, on_reset actions run, nothing else executes",
    "crash points are enumerated along SAMPLED runs (all clock positions of each recorded run); the run space itself is sampled",
    "reset changes never coincide with the active clock edge instant",
    "targets are written as a whole and through slices / single bits (a noreset object stays noreset however it is written)",
]


def gen_program(seed, idx, tier):
    rs = rng.Stream(seed, "C04", "program", idx)
    g = coro.Gen(rs, max_depth=3, max_stmts=10, allow_halt=True)
    g.reset_kind = KINDS[idx % 4]
    if rs.below(2):
        g.targets = ["q", "r", "nd", "nr"]
        g.partial = True
        if rs.below(2):
            g.targets += ["rx", "nx"]
    if rs.below(10) == 0:
        return g.program_undefaulted()
    g.on_reset = rs.below(4) == 0
    g.push = rs.below(3) == 0
    prog = g.program()
    if not g.on_reset and rs.below(4) == 0:
        prog["reset"]["derive"] = {"op": rs.choice(["or", "and"]), "low": bool(rs.below(2))}
    elif not g.on_reset and rs.below(5) == 0:
        prog["reset"]["derive"] = {"op": "replace", "low": bool(rs.below(2)), "base": rs.choice(["xr", "xr", "none"]), "base_async": bool(rs.below(2))}
    if rs.below(4) == 0:
        prog["tap"] = rs.choice(["q", "r"] + (["nr"] if "nr" in g.targets else []))
    return prog


class Runner:
    def __init__(self, prog, design, order_seed, tag):
        self.prog = prog
        self.kind = prog["reset"]["kind"]
        self.is_async = self.kind.startswith("async")
        self.L = 1 if self.kind.endswith("high") else 0
        self.order_rs = rng.Stream(order_seed, "order", tag)
        self.b = bench.Bench(design, order_stream=self.order_rs, offsets_stream=rng.Stream(order_seed, "offsets", tag), active=prog["edge"])
        self.ref = coro_ref.CoroRef(prog)
        self.outs = self.ref.OUTS
        self.rst_active = False
        self.prev = None
        # derived context (or_reset / and_reset): a second reset pin xr with its own polarity; src = the pins a fault drives
        self.derive = prog["reset"].get("derive")
        self.Lx = 0 if (self.derive or {}).get("low") else 1
        self.p_act = self.x_act = False
        self.src = "p"
        self.reset_seen = False

    def start(self, first):
        f = dict(first)
        f["rst"] = 1 - self.L
        if self.derive:
            f["xr"] = 1 - self.Lx
        self.b.start(f)
        self.prev = dict(first)

    def check(self, where):
        exp = self.ref.sig
        for n in self.outs:
            e = exp[n]
            if e is None:
                continue  # object without default before its first assignment: unspecified
            g = self.b.get(n)
            if g != e:
                return {"where": where, "signal": n, "expected": e, "got": g}
        if self.b.sim.asserts:
            return {"where": where, "asserts": self.b.sim.asserts[:2]}
        if self.b.sim.driver_conflicts:
            return {"where": where, "driver_conflicts": self.b.sim.driver_conflicts[:2]}
        return None

    def set_rst(self, level, where):
        if self.derive:
            on = level == self.L  # "assert" / "release" of the source(s) this fault drives
            pins = {}
            if "p" in self.src:
                pins["rst"] = self.L if on else 1 - self.L
                self.p_act = on
            if "x" in self.src:
                pins["xr"] = self.Lx if on else 1 - self.Lx
                self.x_act = on
            self.b.apply(pins)
            op = self.derive["op"]
            # (replace: the base context's reset on xr was replaced by with_params -- xr resets nothing)
            self.rst_active = self.p_act if op == "replace" else (self.p_act or self.x_act) if op == "or" else (self.p_act and self.x_act)
            self.reset_seen = self.reset_seen or (self.is_async and self.rst_active)
            if self.is_async and self.rst_active:
                self.ref.reset()
            return self.check(where)
        self.b.apply({"rst": level})
        self.reset_seen = True
        self.rst_active = level == self.L
        if self.is_async and self.rst_active:
            self.ref.reset()
        return self.check(where)

    def clock(self, j, step, pre=(), mid=()):
        """one period; pre/mid: successive reset levels applied before / after the active edge"""
        self.b.cycle_inputs(step, self.prev)
        self.prev = step
        for lv in pre:
            bad = self.set_rst(lv, f"clock {j} pre rst={lv}")
            if bad:
                return bad
        self.b.edge()
        if self.rst_active:
            self.reset_seen = True
            self.ref.reset()
        elif not self.prog.get("step_cond") or step["en"]:
            self.ref.step(step)
        bad = self.check(f"clock {j} after edge")
        if bad:
            return bad
        for lv in mid:
            bad = self.set_rst(lv, f"clock {j} mid rst={lv}")
            if bad:
                return bad
        self.b.half()
        return self.check(f"clock {j} after inactive edge")


def plan_fault(frs, is_async, L, k, d):
    """reset schedule {clock: (pre levels, mid levels)} and the clock at which it is released"""
    idle = 1 - L
    sched = {}
    mode = frs.below(6 if is_async else 4)
    if mode in (0, 1):  # assert before edge k, release before edge k+d
        sched[k] = ((L,), ())
        sched[k + d] = ((idle,), ())
        name = "pre"
    elif mode == 2:  # assert after edge k (mid), release after edge k+d (mid)
        sched[k] = ((), (L,))
        sched[k + d] = ((), (idle,))
        name = "mid"
    elif mode == 3:  # double reset: reset, release, reset again one clock later
        sched[k] = ((L,), ())
        sched[k + 1] = ((idle,), ())
        sched[k + 2] = ((L,), ())
        sched[k + 2 + d] = ((idle,), ())
        name = "double"
    elif mode == 4:  # pulse between edges covering no edge (async only)
        sched[k] = ((L, idle), ())
        name = "pulse-pre"
    else:
        sched[k] = ((), (L, idle))
        name = "pulse-mid"
    return sched, name


def explore(prog, text, tn, seed, idx, tier, stats):
    design = elab.elaborate_text(text, temp_names=tn)
    srs = rng.Stream(seed, "C04", "stimulus", idx)
    n_base = srs.range(24, 48 if tier == "quick" else 110)
    base = c01.gen_stimulus(srs, prog, n_base)
    oseed = rng.derive(seed, "C04", "order", idx)
    state_sid = next((s.sid for s in design.signals if s.ty.kind == "enum"), None)
    # fault-free recorded run with a snapshot before every clock
    R = Runner(prog, design, oseed, "base")
    R.start(base[0])
    snaps = []
    for k, step in enumerate(base):
        snaps.append((R.b.sim.snapshot(), dict(R.prev)))
        bad = R.clock(k, step)
        if bad:
            return "mismatch", dict(bad, fault=None), {"stim": base, "fault": None}
    all_default = not prog["reset"].get("extra_ports") and not prog["reset"].get("on_reset")
    tail_n = 14 if tier == "quick" else 24
    states_hit = set()
    for k in range(n_base):
        frs = rng.Stream(seed, "C04", "fault", idx, k)
        d = frs.range(1, 3)
        sched, fname = plan_fault(frs, R.is_async, R.L, k, d)
        last = max(sched)
        tail = c01.gen_stimulus(frs, prog, last - k + 1 + tail_n)
        # restore DUT to clock k, rebuild the reference by replaying the prefix
        F = Runner(prog, design, oseed, f"fault{k}")
        F.b.sim.restore(snaps[k][0])
        F.b.started = True
        F.prev = dict(snaps[k][1])
        if F.derive:
            F.src = frs.choice(["p", "x", "px"])
        for j in range(k):
            if not prog.get("step_cond") or base[j]["en"]:
                F.ref.step(base[j])
        if state_sid is not None:
            states_hit.add((F.b.sim.V[state_sid], fname))
        stats["faulted_runs"] += 1
        stats["fault_" + fname] = stats.get("fault_" + fname, 0) + 1
        release_clock = None
        trace_after = []
        for t, step in enumerate(tail):
            j = k + t
            pre, mid = sched.get(j, ((), ()))
            bad = F.clock(j, step, pre, mid)
            if bad:
                return "mismatch", dict(bad, fault={"at": k, "mode": fname, "duration": d}), {"stim": base[:k] + tail, "base": base, "fault": {"at": k, "mode": fname, "duration": d, "sched": {str(a): b for a, b in sched.items()}, "tail": tail}}
            # first clock that executes normally after the release: the release clock itself when
            # reset was released before its edge, the following one when released after the edge
            first_normal = last + 1 if fname == "mid" else last
            if j >= first_normal and not F.rst_active:
                release_clock = first_normal
                trace_after.append((step, {n: F.b.get(n) for n in F.outs}))
        stats["clocks"] += len(tail)
        # (ii) metamorphic: behaviour after release == behaviour after power-up
        if all_default and trace_after and F.reset_seen and fname not in ("pulse-pre", "pulse-mid"):
            P = Runner(prog, design, oseed, f"power{k}")
            P.start(trace_after[0][0])
            for t, (step, outs) in enumerate(trace_after):
                P.b.cycle_inputs(step, P.prev)
                P.prev = step
                P.b.edge()
                got = {n: P.b.get(n) for n in F.outs}
                if got != outs:
                    return "powerup-differs", {"fault": {"at": k, "mode": fname, "duration": d}, "clock_after_release": t, "after_reset": outs, "after_powerup": got}, {"base": base, "fault": {"at": k, "mode": fname, "duration": d, "sched": {str(a): b for a, b in sched.items()}, "tail": tail}}
                P.b.half()
            stats["powerup_compares"] += 1
    stats["states_hit"] = len(states_hit)
    stats["states"] = max([len(t.lits) for t in design.enum_types.values()] or [1])
    stats["deltas"] = R.b.sim.delta_count
    return "ok", {}, None


def run_one(seed, idx, tier):
    prog = gen_program(seed, idx, tier)
    res = {"idx": idx, "shape": hashlib.sha256(repr(coro.shape(prog)).encode()).hexdigest()[:16], "kind": prog["reset"]["kind"]}
    try:
        src, text, tn = c01.compile_prog(prog)
    except render.Rejected as e:
        res.update(status="rejected", reason=f"{e.exc_type}: {e.message[:120]}")
        return res
    stats = {"faulted_runs": 0, "clocks": 0, "powerup_compares": 0}
    try:
        status, detail, extra = explore(prog, text, tn, seed, idx, tier, stats)
    except VhdlError as e:
        if e.rule == "sensitivity" and prog["reset"]["kind"].startswith("async"):
            # part of THIS statement: an asynchronous reset acts at any instant, so the process has to wake up on it
            res.update(status="violation", vclass="asynchronous-reset-missing-from-the-sensitivity-list", detail={"msg": str(e)[:300]}, payload={"prog": prog, "source": src, "vhdl": text, "seed": seed, "idx": idx, "tier": tier, "case": None}, stats=stats)
            return res
        res.update(status="skipped", reason="illegal-vhdl:" + str(e.rule), stats=stats)
        return res
    except Unsupported as e:
        res.update(status="harness", vclass="unsupported", detail={"msg": str(e)})
        return res
    except kernel.ReadBeforeWrite as e:
        status, detail, extra = "rbw", {"msg": str(e)}, {}
    except SimError as e:
        status, detail, extra = "simerror", {"msg": str(e)}, {}
    res["stats"] = stats
    if status != "ok":
        res.update(status="violation", vclass=status, detail=detail, payload={"prog": prog, "source": src, "vhdl": text, "seed": seed, "idx": idx, "tier": tier, "case": extra})
    else:
        res["status"] = "ok"
    return res


def replay(payload):
    prog = payload["prog"]
    try:
        src, text, tn = c01.compile_prog(prog)
    except render.Rejected as e:
        return "rejected", {"reason": str(e)}
    stats = {"faulted_runs": 0, "clocks": 0, "powerup_compares": 0}
    try:
        status, detail, _ = explore(prog, text, tn, payload["seed"], payload["idx"], payload["tier"], stats)
    except VhdlError as e:
        if e.rule == "sensitivity" and prog["reset"]["kind"].startswith("async"):
            return "asynchronous-reset-missing-from-the-sensitivity-list", {"msg": str(e)[:300]}
        return "legality", {"rule": e.rule, "msg": str(e)}
    except kernel.ReadBeforeWrite as e:
        return "rbw", {"msg": str(e)}
    except SimError as e:
        return "simerror", {"msg": str(e)}
    return status, detail


def plan(tier):
    return 800 if tier == "quick" else 20000


def finding_key(r):
    return None


_seed = [1]


def prepare(seed, tier):
    _seed[0] = seed


def evidence(results, tier):
    ok = [r for r in results if r["status"] == "ok"]
    agg = {}
    for r in results:
        for k, v in (r.get("stats") or {}).items():
            agg[k] = agg.get(k, 0) + v
    by_kind = {}
    for r in ok:
        by_kind[r["kind"]] = by_kind.get(r["kind"], 0) + 1
    distinct = {(r["shape"], r["kind"]) for r in ok if r["stats"]["faulted_runs"] >= 10 and r["stats"].get("states_hit", 0) >= 2}
    sample = None
    for r in ok:
        if r["stats"].get("states_hit", 0) >= 3:
            prog = gen_program(_seed[0], r["idx"], tier)
            sample = {"run": r["idx"], "reset_kind": r["kind"], "body": coro.render(prog).split("async def proc():")[1], "crash_points_enumerated": r["stats"]["faulted_runs"], "(state, fault-mode) pairs interrupted": r["stats"]["states_hit"]}
            break
    return {
        "evaluations": agg.get("faulted_runs", 0) + len(results),
        "distinct_nontrivial": len(distinct),
        "rule": "evaluations = faulted executions (one per clock position of every recorded fault-free run) + designs; for each generated design "
        "(coroutine body, one of 4 reset kinds, optional no-default / noreset / on_reset objects) the reset fault is injected at EVERY clock position of "
        "one sampled run (exhaustive along that run, the run itself is sampled); distinct = distinct (program-shape hash, reset kind); non-trivial = "
        "accepted, >= 10 crash points, reset interrupted >= 2 different (state, fault-mode) pairs",
        "samples": [sample] if sample else [{"note": "no design with >= 3 interrupted states in this run"}],
        "designs": len(results),
        "accepted": len(ok),
        "designs_by_reset_kind": by_kind,
        "faulted_runs": agg.get("faulted_runs", 0),
        "faults_fired": {k[6:]: v for k, v in agg.items() if k.startswith("fault_")},
        "powerup_equivalence_compares": agg.get("powerup_compares", 0),
        "state_faultmode_pairs_interrupted": agg.get("states_hit", 0),
        "emitted_states_total": agg.get("states", 0),
        "simulated_clocks_faulted": agg.get("clocks", 0),
        "real_components": ["cohdl compiler incl. std.sequential/std.Reset wrappers", "emitted VHDL text"],
        "model_components": ["VSIM", "coroutine reference with reset rule", "testbench driver"],
    }
