"""C14 — std.Fifo and std.Stack keep order, content and occupancy exact.

Fifo: wrapper entities (element type x capacity N x layout: one process / two contexts without delay / two
contexts with tx/rx delays x consumer style x reset) are compiled by the real compiler and run in VSIM.  A
producer agent offers a push with a unique payload whenever it wants to AND the DUT's own full() view (as seen
in the producer context) is false; a consumer agent pops when it wants to AND the DUT's own empty() view is
false -- the documented preconditions are kept by construction, inside the design.  Oracle: a deque model
(capacity N-1): order, no loss, no duplication, no push beyond capacity, no pop from empty, exact empty/full
every clock for the configurations without delays, emitted assertions silent, bounded progress.
Stack: one operation (push / pop / reset / none) per clock chosen against the model's preconditions; per-clock
comparison of size/empty/full/front/popped with a list model, NO_OVERFLOW and DROP_OLD modes.
Faults: stalls of either context, reset mid-traffic, process order, input offsets.
"""
from __future__ import annotations

import hashlib

from vf.core import rng
from vf.gen import render
from vf.tb import dut as dutm

PROP = "C14"
LEVEL = "exploration"

ELEM = {
    # name: (type expr, width, to-element expr of an Unsigned[w] port value, to-bits expr of an element)
    "U8": ("Unsigned[8]", 8, "{x}", "{x}"),
    "BV8": ("BitVector[8]", 8, "{x}.bitvector", "{x}.unsigned"),
    "S8": ("Signed[8]", 8, "{x}.signed", "{x}.unsigned"),
    "U3": ("Unsigned[3]", 3, "{x}", "{x}"),
    "REC": ("Rec", 8, "std.from_bits[Rec]({x}.bitvector)", "std.to_bits({x}).unsigned"),
    "ARR": ("std.Array[Unsigned[4], 2]", 8, "std.from_bits[std.Array[Unsigned[4], 2]]({x}.bitvector)", "std.to_bits({x}).unsigned"),
}
SIZES = [2, 3, 4, 5, 6, 7, 8, 9]


def fifo_configs():
    out = []
    for n in SIZES:
        for elem in ("U8", "BV8", "S8", "U3", "REC", "ARR"):
            if elem not in ("U8",) and n not in (3, 4, 5):
                continue
            for layout, tx, rx in [("one_proc", 0, 0), ("two_proc", 0, 0), ("two_proc", 1, 1), ("two_proc", 1, 2), ("two_proc", 2, 1), ("two_proc", 3, 3), ("two_proc", 0, 2), ("two_proc", 2, 0)]:
                if elem != "U8" and (tx, rx) not in ((0, 0), (1, 1)):
                    continue
                for cons in ("sync", "receive", "peek") if layout == "two_proc" else ("sync", "peek"):
                    for reset in (False, True):
                        if reset and elem != "U8":
                            continue
                        out.append({"kind": "fifo", "n": n, "elem": elem, "layout": layout, "tx": tx, "rx": rx, "consumer": cons, "reset": reset})
    return out


def stack_configs():
    out = []
    for n in (1, 2, 3, 4, 5, 7, 8):
        for mode in ("NO_OVERFLOW", "DROP_OLD"):
            for elem in ("U8", "REC"):
                if elem == "REC" and n not in (3, 4):
                    continue
                out.append({"kind": "stack", "n": n, "mode": mode, "elem": elem})
    return out


CONFIGS = fifo_configs() + stack_configs()
for _i, _c in enumerate(CONFIGS):
    # every other design first creates a second container of the SAME element type but another depth (never used): the
    # depth belongs to the specialisation just as the element type does
    _c["decoy"] = _i % 2 == 1

HEADER = [
    "from __future__ import annotations",
    "import cohdl",
    "from cohdl import Bit, BitVector, Unsigned, Signed, Port, Signal, Variable, Null, Full, true, false",
    "from cohdl import std",
    "",
    "class Rec(std.Record):",
    "    a: Bit",
    "    n: Unsigned[5]",
    "    s: Signed[2]",
    "",
]


def render_fifo(cfg):
    ty, w, enc, dec = ELEM[cfg["elem"]]
    tx, rx, n = cfg["tx"], cfg["rx"], cfg["n"]
    L = HEADER + [
        "class E(cohdl.Entity):",
        "    clk = Port.input(Bit)",
        "    rst = Port.input(Bit)",
        "    p_en = Port.input(Bit)",
        "    c_en = Port.input(Bit)",
        "    p_try = Port.input(Bit)",
        f"    p_data = Port.input(Unsigned[{w}])",
        "    c_take = Port.input(Bit)",
        "    att = Port.output(Bit, default=False)",
        f"    att_data = Port.output(Unsigned[{w}], default=0)",
        "    got = Port.output(Bit, default=False)",
        f"    got_data = Port.output(Unsigned[{w}], default=0)",
        "    v_empty = Port.output(Bit)",
        "    v_full = Port.output(Bit)",
        "    ps_empty = Port.output(Bit, default=False)",
        "    cs_full = Port.output(Bit, default=False)",
        "",
        "    def architecture(self):",
        "        clk = std.Clock(self.clk)",
    ]
    rst = ", std.Reset(self.rst)" if cfg["reset"] else ""
    L.append(f"        pctx = std.SequentialContext(clk{rst}, step_cond=lambda: self.p_en)")
    L.append(f"        cctx = std.SequentialContext(clk{rst}, step_cond=lambda: self.c_en)")
    if cfg.get("decoy"):
        L.append(f"        decoy = std.Fifo[{ty}, {n + 3}]()")
    if tx or rx:
        L.append(f"        fifo = std.Fifo[{ty}, {n}](tx_delay={tx}, rx_delay={rx})")
    else:
        L.append(f"        fifo = std.Fifo[{ty}, {n}]()")
    L += [
        "        @std.concurrent",
        "        def views():",
        "            self.v_empty <<= fifo.empty()",
        "            self.v_full <<= fifo.full()",
    ]
    prod = [
        "self.ps_empty <<= fifo.empty()",  # the SENDER's view of empty (registered in every producer step)
        "if self.p_try and not fifo.full():",
        "    self.att ^= True",
        "    self.att_data <<= self.p_data",
        f"    fifo.push({enc.format(x='self.p_data')})",
    ]
    cons = [
        "self.cs_full <<= fifo.full()",  # the RECEIVER's view of full
        "if self.c_take and not fifo.empty():",
        "    self.got ^= True",
        f"    self.got_data <<= {dec.format(x='fifo.pop()')}",
    ]
    if cfg["consumer"] == "peek":
        # the consumer looks at the oldest element with front() and then removes it with pop()
        cons = [
            "self.cs_full <<= fifo.full()",
            "if self.c_take and not fifo.empty():",
            "    self.got ^= True",
            f"    self.got_data <<= {dec.format(x='fifo.front()')}",
            "    fifo.pop()",
        ]
    if cfg["layout"] == "one_proc":
        L += ["        @pctx", "        def both():"] + ["            " + l for l in prod + cons]
    else:
        L += ["        @pctx", "        def producer():"] + ["            " + l for l in prod]
        if cfg["consumer"] in ("sync", "peek"):
            L += ["        @cctx", "        def consumer():"] + ["            " + l for l in cons]
        else:
            L += [
                "        @cctx",
                "        async def consumer():",
                "            await self.c_take",
                "            d = await fifo.receive()",
                "            self.got ^= True",
                f"            self.got_data <<= {dec.format(x='d')}",
            ]
    return "\n".join(L) + "\n"


def render_stack(cfg):
    ty, w, enc, dec = ELEM[cfg["elem"]]
    n = cfg["n"]
    L = HEADER + [
        "class E(cohdl.Entity):",
        "    clk = Port.input(Bit)",
        "    op = Port.input(Unsigned[2])",
        f"    d = Port.input(Unsigned[{w}])",
        "    popv = Port.output(Bit, default=False)",
        f"    popped = Port.output(Unsigned[{w}], default=0)",
        f"    front = Port.output(Unsigned[{w}], default=0)",
        "    size = Port.output(Unsigned[8])",
        "    empty = Port.output(Bit)",
        "    full = Port.output(Bit)",
        "",
        "    def architecture(self):",
        *([f"        decoy = std.Stack[{ty}, {n + 3}](mode=std.StackMode.{cfg['mode']})"] if cfg.get("decoy") else []),
        f"        stack = std.Stack[{ty}, {n}](mode=std.StackMode.{cfg['mode']})",
        "        @std.concurrent",
        "        def views():",
        "            self.size <<= stack.size()",
        "            self.empty <<= stack.empty()",
        "            self.full <<= stack.full()",
        "        @std.sequential(std.Clock(self.clk))",
        "        def proc():",
        "            if not stack.empty():",
        f"                self.front <<= {dec.format(x='stack.front()')}",
        "            if self.op == 1:",
        f"                stack.push({enc.format(x='self.d')})",
        "            elif self.op == 2:",
        "                self.popv ^= True",
        f"                self.popped <<= {dec.format(x='stack.pop()')}",
        "            elif self.op == 3:",
        "                stack.reset()",
    ]
    return "\n".join(L) + "\n"


def render_src(cfg):
    return render_fifo(cfg) if cfg["kind"] == "fifo" else render_stack(cfg)


def bound(cfg):
    return 4 * (cfg["tx"] + cfg["rx"]) + 12


def gen_schedule(rs, cfg, n):
    if cfg["kind"] == "stack":
        mode = rs.below(4)
        steps = []
        for _ in range(n):
            steps.append({"want": rs.weighted([(5, 1), (4, 2), (1, 3), (2, 0)]) if mode == 0 else rs.weighted([(8, 1), (2, 2), (1, 0)]) if mode == 1 else rs.weighted([(2, 1), (8, 2), (1, 0)]) if mode == 2 else rs.below(4), "force": rs.below(12) == 0})
        return {"steps": steps}
    pm, cm = rs.below(4), rs.below(4)
    stall_p, stall_c = rs.below(3) == 0, rs.below(3) == 0
    resets = []
    if cfg["reset"] and rs.below(2):
        for _ in range(rs.range(1, 2)):
            resets.append((rs.range(5, n - 40), rs.range(1, 3)))
    steps = []
    phase_len = rs.range(6, 30)
    for k in range(n):
        # phases: fill (producer eager, consumer lazy) / drain / mixed, so that full and empty are both reached
        ph = (k // phase_len) % 3

        def dec(m, eager):
            if eager is not None and rs.below(4):
                return eager
            if m == 0:
                return 1
            if m == 1:
                return rs.below(2)
            if m == 2:
                return 1 if rs.below(4) == 0 else 0
            return 0 if rs.below(5) == 0 else 1

        st = {"p_try": dec(pm, 1 if ph == 0 else 0 if ph == 1 else None), "c_take": dec(cm, 0 if ph == 0 else 1 if ph == 1 else None), "p_en": 1, "c_en": 1}
        if stall_p and rs.below(8) == 0:
            st["_stall_p"] = rs.range(1, 5)
        if stall_c and rs.below(8) == 0:
            st["_stall_c"] = rs.range(1, 5)
        steps.append(st)
    for k in range(max(0, n - bound(cfg) - 6), n):
        steps[k] = {"p_try": 1, "c_take": 1, "p_en": 1, "c_en": 1}
    return {"steps": steps, "resets": resets}


def sim_fifo(cfg, design, sched, order_seed, order_mode):
    d = dutm.Dut(design, order_seed, "c14", order_mode=order_mode)
    ty, w, _, _ = ELEM[cfg["elem"]]
    cap = cfg["n"] - 1
    mask = (1 << w) - 1
    exact = cfg["tx"] == 0 and cfg["rx"] == 0
    steps = sched["steps"]
    n = len(steps)
    d.start({"rst": 0, "p_en": 1, "c_en": 1, "p_try": 0, "p_data": 0, "c_take": 0})
    q = []
    payload = 1
    stall_p = stall_c = rst_left = 0
    resets = {k: l for k, l in sched["resets"]}
    st_ = {"pushes": 0, "pops": 0, "f_stall_p": 0, "f_stall_c": 0, "f_reset": 0, "p_wrap": 0, "p_full": 0, "p_both_at_0": 0, "p_both_at_1": 0, "p_both_at_nm2": 0, "p_both_at_full": 0, "p_push_and_pop_same_clock": 0, "dropped_by_reset": 0, "max_occ": 0}
    quiet_since = 0
    last_progress = 0
    events = []
    for k in range(n):
        s = steps[k]
        if "_stall_p" in s and stall_p == 0:
            stall_p = s["_stall_p"]
        if "_stall_c" in s and stall_c == 0:
            stall_c = s["_stall_c"]
        if k in resets:
            rst_left = resets[k]
            st_["f_reset"] += 1
        inp = {"p_try": s["p_try"], "c_take": s["c_take"], "p_data": payload & mask, "p_en": 0 if stall_p else 1, "c_en": 0 if stall_c else 1, "rst": 1 if rst_left else 0}
        st_["f_stall_p"] += 1 if stall_p else 0
        st_["f_stall_c"] += 1 if stall_c else 0
        p_step = inp["p_en"] == 1
        c_step = inp["c_en"] == 1 if cfg["layout"] != "one_proc" else p_step
        occ0 = len(q)
        if s["p_try"] and s["c_take"] and p_step and c_step and not rst_left:
            key = {0: "p_both_at_0", 1: "p_both_at_1", cap - 1: "p_both_at_nm2", cap: "p_both_at_full"}.get(occ0)
            if key:
                st_[key] += 1
        d.clock(inp)
        o = {x: d.get(x) for x in ("att", "att_data", "got", "got_data", "v_empty", "v_full", "ps_empty", "cs_full")}
        pr = d.problems()
        if pr:
            return pr[0], dict(pr[1], clock=k, events=events[-6:]), st_, d
        # the far side's flags may lag, but only in the safe direction: a sender that sees 'empty' has nothing stored, a receiver
        # that sees 'full' has a full fifo (occupancy before this clock's push / pop)
        if not rst_left and k > 0:
            if p_step and o["ps_empty"] == 1 and occ0 != 0:
                return "fifo", {"rule": "sender-sees-empty-while-elements-are-stored", "clock": k, "occupancy": occ0, "events": events[-6:]}, st_, d
            if c_step and cfg["consumer"] != "receive" and o["cs_full"] == 1 and occ0 != cap:
                return "fifo", {"rule": "receiver-sees-full-while-not-full", "clock": k, "occupancy": occ0, "capacity": cap, "events": events[-6:]}, st_, d
        if rst_left:
            st_["dropped_by_reset"] += len(q)
            q = []
            quiet_since = k + 1
            last_progress = k
            events.append((k, "reset"))
        else:
            pushed = p_step and o["att"] == 1
            popped = c_step and o["got"] == 1
            if popped:
                if occ0 == 0:
                    return "fifo", {"rule": "pop-from-empty-fifo", "clock": k, "data": o["got_data"], "events": events[-6:]}, st_, d
                exp = q.pop(0)
                if exp != o["got_data"]:
                    return "fifo", {"rule": "wrong-element-delivered(order/loss/duplication)", "clock": k, "expected": exp, "got": o["got_data"], "queue": q[:6], "events": events[-6:]}, st_, d
                st_["pops"] += 1
                events.append((k, "pop", exp))
            if pushed:
                if occ0 >= cap:
                    return "fifo", {"rule": "push-accepted-beyond-capacity", "clock": k, "occupancy": occ0, "capacity": cap, "events": events[-6:]}, st_, d
                q.append(o["att_data"])
                payload += 1
                st_["pushes"] += 1
                events.append((k, "push", o["att_data"]))
                if st_["pushes"] > cfg["n"]:
                    st_["p_wrap"] = 1
            if pushed and popped:
                st_["p_push_and_pop_same_clock"] += 1
            if pushed or popped:
                last_progress = k
            st_["max_occ"] = max(st_["max_occ"], len(q))
            if len(q) == cap:
                st_["p_full"] += 1
            if exact:
                if o["v_empty"] != (1 if len(q) == 0 else 0) or o["v_full"] != (1 if len(q) == cap else 0):
                    return "fifo", {"rule": "empty/full-indication-not-exact", "clock": k, "occupancy": len(q), "capacity": cap, "v_empty": o["v_empty"], "v_full": o["v_full"], "events": events[-6:]}, st_, d
            disturbed = not p_step or not c_step or not s["p_try"] or not s["c_take"]
            if disturbed:
                quiet_since = k + 1
            elif k - max(quiet_since, last_progress) > bound(cfg):
                return "fifo", {"rule": "no-progress-within-bound", "clock": k, "bound": bound(cfg), "occupancy": len(q), "events": events[-6:]}, st_, d
        d.half()
        stall_p = max(0, stall_p - 1)
        stall_c = max(0, stall_c - 1)
        rst_left = max(0, rst_left - 1)
    return "ok", {}, st_, d


def sim_stack(cfg, design, sched, order_seed, order_mode):
    d = dutm.Dut(design, order_seed, "c14s", order_mode=order_mode)
    ty, w, _, _ = ELEM[cfg["elem"]]
    N = cfg["n"]
    drop = cfg["mode"] == "DROP_OLD"
    mask = (1 << w) - 1
    st = []
    d.start({"op": 0, "d": 0})
    payload = 1
    st_ = {"pushes": 0, "pops": 0, "resets": 0, "p_full": 0, "p_drop_old": 0, "p_pop_to_empty": 0, "max_occ": 0}
    front_known = None
    for k, s in enumerate(sched["steps"]):
        want = s["want"]
        # documented preconditions: no pop when empty; no push when full unless drop-old mode
        if want == 2 and not st:
            want = 0
        if want == 1 and len(st) == N and not drop:
            want = 0
        data = payload & mask
        pre = list(st)
        d.clock({"op": want, "d": data})
        exp_pop = None
        if want == 1:
            if len(st) == N:
                st.pop(0)
                st_["p_drop_old"] += 1
            st.append(data)
            payload += 1
            st_["pushes"] += 1
        elif want == 2:
            exp_pop = st.pop()
            st_["pops"] += 1
            if not st:
                st_["p_pop_to_empty"] += 1
        elif want == 3:
            st = []
            st_["resets"] += 1
        if pre:
            front_known = pre[-1]
        o = {x: d.get(x) for x in ("popv", "popped", "front", "size", "empty", "full")}
        pr = d.problems()
        if pr:
            return pr[0], dict(pr[1], clock=k, op=want, stack=pre), st_, d
        exp = {"size": len(st), "empty": 1 if not st else 0, "full": 1 if len(st) == N else 0}
        for x, v in exp.items():
            if o[x] != v:
                return "stack", {"rule": f"{x}-not-exact", "clock": k, "op": want, "expected": v, "got": o[x], "stack_before": pre, "stack_after": st}, st_, d
        if (o["popv"] == 1) != (want == 2):
            return "stack", {"rule": "pop-strobe", "clock": k, "op": want}, st_, d
        if want == 2 and o["popped"] != exp_pop:
            return "stack", {"rule": "pop-not-last-in-first-out", "clock": k, "expected": exp_pop, "got": o["popped"], "stack_before": pre}, st_, d
        if front_known is not None and pre and o["front"] != pre[-1]:
            return "stack", {"rule": "front-not-top-of-stack", "clock": k, "expected": pre[-1], "got": o["front"], "stack_before": pre}, st_, d
        st_["max_occ"] = max(st_["max_occ"], len(st))
        if len(st) == N:
            st_["p_full"] += 1
        d.half()
    return "ok", {}, st_, d


def simulate(cfg, design, sched, order_seed, order_mode="uniform"):
    return (sim_fifo if cfg["kind"] == "fifo" else sim_stack)(cfg, design, sched, order_seed, order_mode)


def run_one(seed, idx, tier):
    cfg = CONFIGS[idx % len(CONFIGS)]
    rs = rng.Stream(seed, "C14", "schedule", idx)
    n = rs.range(100, 240 if tier == "quick" else 500)
    sched = gen_schedule(rs, cfg, n)
    oseed = rng.derive(seed, "C14", "order", idx)
    mode = ("uniform", "uniform", "reverse", "stable")[rng.Stream(oseed, "mode").below(4)]
    key = repr(sorted(cfg.items()))
    res = {"idx": idx, "shape": hashlib.sha256(key.encode()).hexdigest()[:12], "cfg": cfg}
    src = render_src(cfg)
    payload = {"cfg": cfg, "sched": sched, "order_seed": oseed, "order_mode": mode, "source": src}
    try:
        design = dutm.compile_design(src, cache_key=key)
    except render.Rejected as e:
        res.update(status="harness", vclass="wrapper-rejected", detail={"reason": f"{e.exc_type}: {e.message[:300]}", "cfg": cfg})
        return res
    except Exception as e:
        stt, det = dutm.guarded(lambda: (_ for _ in ()).throw(e))
        if stt == "legality":
            res.update(status="skipped", reason="illegal-vhdl:" + str(det.get("rule")))
            return res
        res.update(status="violation", vclass=stt, detail=det, payload=payload)
        return res
    out = dutm.guarded(lambda: simulate(cfg, design, sched, oseed, mode))
    if len(out) == 2:
        res.update(status="violation", vclass=out[0], detail=out[1], payload=payload)
        return res
    status, detail, st_, d = out
    res["stats"] = dict(d.stats(), **st_)
    if status != "ok":
        res.update(status="violation", vclass=status + ":" + str(detail.get("rule", "")), detail=detail, payload=payload)
    else:
        res["status"] = "ok"
    return res


def replay(payload):
    cfg = payload["cfg"]
    try:
        design = dutm.compile_design(render_src(cfg))
    except render.Rejected as e:
        return "wrapper-rejected", {"reason": str(e)}
    out = dutm.guarded(lambda: simulate(cfg, design, payload["sched"], payload["order_seed"], payload.get("order_mode", "uniform")))
    if len(out) == 2:
        return out
    if out[0] == "ok":
        return "ok", {}
    return out[0] + ":" + str(out[1].get("rule", "")), out[1]


def plan(tier):
    return len(CONFIGS) * (3 if tier == "quick" else 120)


def finding_key(r):
    return None


ASSUMPTIONS = [
    "VSIM stands in for a VHDL simulator; one clock for both contexts",
    "the documented preconditions are kept inside the wrapper: push only when the producer context's own full() is false, pop only when the consumer context's own empty() is false",
    "exact empty/full is checked (from a third, concurrent context) only for configurations without delays; with delays the flags may lag conservatively, the unsafe direction shows as push-beyond-capacity / pop-from-empty / assertion",
    "after a reset the model is cleared",
    "bounded progress: with both agents willing and no fault, a push or pop happens within 4*(tx+rx)+12 clocks",
]


def evidence(results, tier):
    ok = [r for r in results if r["status"] == "ok"]
    agg = {}
    for r in results:
        dutm.add_stats(agg, r.get("stats") or {})
    nontriv = {(r["shape"], r["stats"].get("p_wrap", 0), r["stats"].get("p_full", 0) > 0, r["stats"].get("f_stall_p", 0) > 0, r["stats"].get("f_stall_c", 0) > 0) for r in ok if r["stats"]["pops"] >= 3}
    sample = None
    for r in ok:
        if r["cfg"]["kind"] == "fifo" and r["stats"]["pops"] >= 5 and r["cfg"]["tx"] + r["cfg"]["rx"] >= 2:
            sample = {"run": r["idx"], "config": r["cfg"], "pushes": r["stats"]["pushes"], "pops": r["stats"]["pops"], "wrapper_source": render_src(r["cfg"]).split("def architecture(self):")[1]}
            break
    probes = {k[2:]: v for k, v in agg.items() if k.startswith("p_")}
    return {
        "evaluations": len(results),
        "distinct_nontrivial": len(nontriv),
        "rule": "one evaluation = one wrapper configuration (%d fifo + %d stack configurations) simulated under one seeded schedule of push/pop willingness (fill / drain / mixed phases), "
        "stalls, resets, process order; distinct = distinct (configuration, wrapped-around, full reached, stall kinds fired); non-trivial = >= 3 elements popped" % (len(fifo_configs()), len(stack_configs())),
        "samples": [sample] if sample else [],
        "configurations": len(CONFIGS),
        "simulated_clocks": agg.get("clocks", 0),
        "delta_cycles": agg.get("deltas", 0),
        "elements_pushed": agg.get("pushes", 0),
        "elements_popped": agg.get("pops", 0),
        "reach_probes": probes,
        "faults_fired": {"stall_producer_clocks": agg.get("f_stall_p", 0), "stall_consumer_clocks": agg.get("f_stall_c", 0), "reset": agg.get("f_reset", 0), "stack_reset_ops": agg.get("resets", 0), "elements_dropped_by_reset": agg.get("dropped_by_reset", 0), "process_order_permutations": agg.get("reorders", 0), "input_glitch": agg.get("off_glitch", 0)},
        "real_components": ["cohdl compiler", "std.Fifo / std.Stack / std.SyncFlag / std.Array / std.Record serialisation as shipped", "emitted VHDL"],
        "model_components": ["VSIM", "producer/consumer agents", "deque / list models"],
    }


def acceptance(cov, tier):
    probs = []
    pr = cov["reach_probes"]
    for k in ("wrap", "full", "both_at_0", "both_at_1", "both_at_nm2", "both_at_full", "push_and_pop_same_clock", "drop_old", "pop_to_empty"):
        if not pr.get(k):
            probs.append(f"reach probe {k} is zero")
    ff = cov["faults_fired"]
    for k in ("stall_producer_clocks", "stall_consumer_clocks", "reset", "stack_reset_ops"):
        if not ff.get(k):
            probs.append(f"fault kind {k} never fired")
    return probs
