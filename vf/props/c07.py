"""C07 — one driver per signal: conflicts rejected, accepted designs conflict-free.

Placement workload: an object (signal, output port, slice, element, variable, intermediate) and a placement of its
writers / readers across contexts of every kind (two sequential, sequential + concurrent, always-expression, sub-entity
instance outputs, two instances, one instance with two outputs, input ports, variables shared between contexts).
Oracle, counted from the placement: more than one writing context / instance output for any part of a signal, a
write to an input port, or a variable / intermediate used by more than one context  =>  the compiler must reject.
Otherwise the design may be accepted and then (i) the static driver map of the elaborated VHDL shows at most one
driving process per scalar sub-element, (ii) no process variable is visible outside its process (elaboration), and
(iii) the dynamic driver monitor stays silent for a whole simulated run under seeded stimulus and process order
(a conflict that only materialises when both drivers are active, e.g. a reset branch).
"""
from __future__ import annotations

import hashlib
import re

from vf.core import rng
from vf.gen import render
from vf.tb import dut as dutm
from vf.vsim import kernel

PROP = "C07"
LEVEL = "exploration"

PRE = """from __future__ import annotations
import cohdl
from cohdl import Bit, BitVector, Unsigned, Signed, Port, Signal, Variable, Temporary, Null, Full, true, false
from cohdl import std
from cohdl import vhdl

def drive(target, source):
    # inline VHDL helper: the target is written (no !r), the source is read (!r)
    return f"{vhdl:{target} <= {source!r};}"

class Sub(cohdl.Entity):
    i = Port.input(Unsigned[4])
    x = Port.output(Unsigned[4])
    y = Port.output(Unsigned[4])
    xb = Port.output(BitVector[2])

    def architecture(self):
        @std.concurrent
        def logic():
            self.x <<= self.i + 1
            self.y <<= self.i + 2
            self.xb <<= self.i[1:0]
            #SUBEXTRA

class E(cohdl.Entity):
    clk = Port.input(Bit)
    rst = Port.input(Bit)
    a = Port.input(Bit)
    b = Port.input(Bit)
    d = Port.input(Unsigned[4])
    o = Port.output(Unsigned[4])
    o2 = Port.output(Unsigned[4], default=0)
    ob = Port.output(Bit, default=False)

    def architecture(self):
        s = Signal[Unsigned[4]](0)
        s2 = Signal[Unsigned[4]](0)
        sb = Signal[BitVector[4]](Null)
        mem = Signal[cohdl.Array[Unsigned[4], 4]](Null)
        v = Variable[Unsigned[4]](0)
        clk = std.Clock(self.clk)
"""

POST = """
        @std.concurrent
        def observe():
            self.o <<= s
"""

SEQ = "@std.sequential(clk)"
SEQR = "@std.sequential(clk, std.Reset(self.rst))"
CON = "@std.concurrent"


def fn(deco, name, *body):
    return [deco, f"def {name}():"] + ["    " + l for l in body]


def cases():
    C = []

    def add(name, expected, *blocks, subextra=None, observe=True):
        lines = []
        for b in blocks:
            lines += b
        C.append({"name": name, "expected": expected, "lines": lines, "subextra": subextra, "observe": observe})

    # --- single writers (accept) -----------------------------------------------------------------
    add("seq-only", "accept", fn(SEQ, "p1", "nonlocal s", "s <<= self.d"))
    add("conc-only", "accept", fn(CON, "c1", "nonlocal s", "s <<= self.d"))
    add("seq-two-writes-same-ctx", "accept", fn(SEQ, "p1", "nonlocal s", "s <<= self.d", "if self.a:", "    s <<= 3"))
    add("seq-disjoint-slices-same-ctx", "accept", fn(SEQ, "p1", "s[3:2] <<= self.d[1:0]", "s[1:0] <<= self.d[3:2]"))
    add("conc-disjoint-slices-same-ctx", "accept", fn(CON, "c1", "s[3:2] <<= self.d[1:0]", "s[1:0] <<= self.d[3:2]"))
    add("seq-elements-same-ctx", "accept", fn(SEQ, "p1", "mem[0] <<= self.d", "mem[self.d[1:0].unsigned] <<= 3"), fn(CON, "c2", "self.o2 <<= mem[1]"))
    add("two-ctx-different-signals", "accept", fn(SEQ, "p1", "nonlocal s", "s <<= self.d"), fn(SEQ, "p2", "nonlocal s2", "s2 <<= s"), fn(CON, "c3", "self.o2 <<= s2"))
    add("inst-only", "accept", ["Sub(i=self.d, x=s, y=s2, xb=sb[1:0])"], fn(CON, "c3", "self.o2 <<= s2"))
    add("two-inst-different-signals", "accept", ["t1 = Signal[Unsigned[4]]()", "t2 = Signal[Unsigned[4]]()", "tb1 = Signal[BitVector[2]]()", "tb2 = Signal[BitVector[2]]()", "Sub(i=self.d, x=s, y=t1, xb=tb1)", "Sub(i=s, x=s2, y=t2, xb=tb2)"], fn(CON, "c3", "self.o2 <<= s2"))
    add("always-target-no-reset", "accept", fn(SEQ, "p1", "with cohdl.always:", "    s.next = self.d", "self.o2 <<= s"))
    add("push-only", "accept", fn(SEQ, "p1", "self.o2 ^= self.d"))
    add("var-one-ctx", "accept", fn(SEQ, "p1", "nonlocal v, s", "v @= v + 1", "s <<= v"))
    # --- two writers (reject) ----------------------------------------------------------------------
    add("seq+seq", "reject", fn(SEQ, "p1", "nonlocal s", "s <<= self.d"), fn(SEQ, "p2", "nonlocal s", "s <<= 1"))
    add("seq+seq-guarded", "reject", fn(SEQ, "p1", "nonlocal s", "if self.a:", "    s <<= self.d"), fn(SEQ, "p2", "nonlocal s", "if self.b:", "    s <<= 1"))
    add("seq+conc", "reject", fn(SEQ, "p1", "nonlocal s", "s <<= self.d"), fn(CON, "c2", "nonlocal s", "s <<= 1"))
    add("conc+conc", "reject", fn(CON, "c1", "nonlocal s", "s <<= self.d"), fn(CON, "c2", "nonlocal s", "s <<= 1"))
    add("port:seq+seq", "reject", fn(SEQ, "p1", "self.o2 <<= self.d"), fn(SEQ, "p2", "self.o2 <<= 1"))
    add("port:seq+conc", "reject", fn(SEQ, "p1", "self.o2 <<= self.d"), fn(CON, "c2", "self.o2 <<= 1"))
    add("next+assign", "reject", fn(SEQ, "p1", "s.next = self.d"), fn(SEQ, "p2", "nonlocal s", "s <<= 1"))
    add("push+assign", "reject", fn(SEQ, "p1", "self.o2 ^= self.d"), fn(SEQ, "p2", "self.o2 <<= 1"))
    add("push+push", "reject", fn(SEQ, "p1", "self.o2 ^= self.d"), fn(SEQ, "p2", "self.o2 ^= 1"))
    add("slices-disjoint:seq+seq", "reject", fn(SEQ, "p1", "s[3:2] <<= self.d[1:0]"), fn(SEQ, "p2", "s[1:0] <<= self.d[3:2]"))
    add("slices-disjoint:seq+conc", "reject", fn(SEQ, "p1", "s[3:2] <<= self.d[1:0]"), fn(CON, "c2", "s[1:0] <<= self.d[3:2]"))
    add("slices-overlap:seq+seq", "reject", fn(SEQ, "p1", "s[3:1] <<= self.d[2:0]"), fn(SEQ, "p2", "s[1:0] <<= self.d[3:2]"))
    add("bit+whole", "reject", fn(SEQ, "p1", "s[0] <<= self.a"), fn(SEQ, "p2", "nonlocal s", "s <<= self.d"))
    add("elements:seq+seq", "reject", fn(SEQ, "p1", "mem[0] <<= self.d"), fn(SEQ, "p2", "mem[1] <<= self.d"), fn(CON, "c3", "self.o2 <<= mem[1]"))
    add("element-dynamic+const", "reject", fn(SEQ, "p1", "mem[self.d[1:0].unsigned] <<= self.d"), fn(CON, "c2", "mem[3] <<= self.d"), fn(CON, "c3", "self.o2 <<= mem[1]"))
    add("view:unsigned+bitvector", "reject", fn(SEQ, "p1", "sb.unsigned.next = self.d"), fn(SEQ, "p2", "sb[0] <<= self.a"), fn(CON, "c3", "self.o2 <<= sb.unsigned"))
    add("always+other-ctx", "reject", fn(SEQ, "p1", "with cohdl.always:", "    s.next = self.d"), fn(SEQ, "p2", "nonlocal s", "s <<= 1"))
    add("always+same-ctx-write", "reject", fn(SEQ, "p1", "nonlocal s", "with cohdl.always:", "    s.next = self.d", "s <<= 1"))
    add("always+same-ctx-write:no-default", "reject", ["nd = Signal[Unsigned[4]]()"], fn(SEQ, "p1", "nonlocal nd", "with cohdl.always:", "    nd.next = self.d", "if self.a:", "    nd <<= 1", "self.o2 <<= nd"))
    add("always+same-ctx-write:noreset", "reject", ["nr = Signal[Unsigned[4]](0, noreset=True)"], fn(SEQR, "p1", "nonlocal nr", "with cohdl.always:", "    nr.next = self.d", "if self.a:", "    nr <<= 1", "self.o2 <<= nr"))
    add("always+same-ctx-write:port-no-default", "reject", fn(SEQ, "p1", "with cohdl.always:", "    self.o.next = self.d", "if self.a:", "    self.o <<= 1"), observe=False)
    add("always-value+same-ctx-write", "accept", ["nd = Signal[Unsigned[4]]()"], fn(SEQ, "p1", "nonlocal nd", "nd <<= cohdl.always(self.d + 1)", "if self.a:", "    nd <<= 1", "self.o2 <<= nd"))
    # --- instances -----------------------------------------------------------------------------------
    add("inst+seq", "reject", ["Sub(i=self.d, x=s, y=s2, xb=sb[1:0])"], fn(SEQ, "p1", "nonlocal s", "s <<= 1"))
    add("inst+conc", "reject", ["Sub(i=self.d, x=s, y=s2, xb=sb[1:0])"], fn(CON, "c1", "nonlocal s2", "s2 <<= 1"))
    add("inst+inst", "reject", ["t1 = Signal[Unsigned[4]]()", "t2 = Signal[Unsigned[4]]()", "Sub(i=self.d, x=s, y=t1, xb=sb[1:0])", "Sub(i=self.d, x=s, y=t2, xb=sb[3:2])"])
    add("inst-two-outputs-same-signal", "reject", ["Sub(i=self.d, x=s, y=s, xb=sb[1:0])"])
    add("inst-two-outputs-overlapping-slices", "reject", ["Sub(i=self.d, x=s, y=s2, xb=sb[1:0])", "Sub(i=self.d, x=Signal[Unsigned[4]](), y=Signal[Unsigned[4]](), xb=sb[2:1])"])
    add("inst-slice+ctx-other-slice", "reject", ["Sub(i=self.d, x=s, y=s2, xb=sb[1:0])"], fn(SEQ, "p1", "sb[3:2] <<= self.d[1:0]"))
    add("inst-output-to-port+ctx", "reject", ["Sub(i=self.d, x=self.o2, y=s2, xb=sb[1:0])"], fn(SEQ, "p1", "self.o2 <<= 1"))
    add("inst-output-to-input-port", "reject", ["Sub(i=self.d, x=self.d, y=s2, xb=sb[1:0])"])
    add("inst-output-to-output-port", "accept", ["Sub(i=self.d, x=self.o2, y=s2, xb=sb[1:0])"])
    add("inst-output-to-output-port-read-back", "accept", ["Sub(i=self.d, x=self.o2, y=s2, xb=sb[1:0])"], fn(SEQ, "p1", "nonlocal s", "s <<= self.o2"))
    add("inst-outputs-to-two-output-ports", "accept", ["Sub(i=self.d, x=self.o2, y=self.o, xb=sb[1:0])"], observe=False)
    # --- input ports -----------------------------------------------------------------------------------
    add("write-input:seq", "reject", fn(SEQ, "p1", "self.d <<= 1"))
    add("write-input:conc", "reject", fn(CON, "c1", "self.a <<= self.b"))
    add("write-input:slice", "reject", fn(SEQ, "p1", "self.d[0] <<= self.a"))
    add("write-input:sub-entity", "reject", ["Sub(i=self.d, x=s, y=s2, xb=sb[1:0])"], subextra="self.i <<= 1")
    # --- variables / intermediates -----------------------------------------------------------------------
    add("var:write-ctx1-read-ctx2", "reject", fn(SEQ, "p1", "nonlocal v", "v @= self.d"), fn(SEQ, "p2", "nonlocal s", "s <<= v"))
    add("var:written-in-two-ctx", "reject", fn(SEQ, "p1", "nonlocal v, s", "v @= self.d", "s <<= v"), fn(SEQ, "p2", "nonlocal v, s2", "v @= 1", "s2 <<= v"))
    add("var:in-concurrent", "reject", fn(CON, "c1", "nonlocal v", "v @= self.d"))
    add("var:read-in-concurrent", "reject", fn(SEQ, "p1", "nonlocal v", "v @= self.d"), fn(CON, "c2", "nonlocal s", "s <<= v"))
    add("temp:defined-ctx1-used-ctx2", "reject", ["box = []"], fn(SEQ, "p1", "nonlocal s", "t = self.d + 1", "box.append(t)", "s <<= t"), fn(SEQ, "p2", "nonlocal s2", "s2 <<= box[0]"))
    # --- contexts built with the core API (no std wrapper: no implicit reset_pushed() default write) --------------------
    RAW = "@cohdl.sequential_context"
    RAWC = "@cohdl.concurrent_context"
    E1 = "if cohdl.rising_edge(self.clk):"
    add("raw:assign-only", "accept", fn(RAW, "p1", "nonlocal s", E1, "    s <<= self.d"))
    add("raw:push-only", "accept", fn(RAW, "p1", E1, "    if self.a:", "        self.o2 ^= self.d"))
    add("raw:conc-only", "accept", fn(RAWC, "c1", "nonlocal s", "s <<= self.d"))
    add("raw:assign+raw:assign", "reject", fn(RAW, "p1", "nonlocal s", E1, "    s <<= self.d"), fn(RAW, "p2", "nonlocal s", E1, "    s <<= 1"))
    add("raw:assign+seq", "reject", fn(RAW, "p1", "nonlocal s", E1, "    s <<= self.d"), fn(SEQ, "p2", "nonlocal s", "s <<= 1"))
    add("raw:conc+conc", "reject", fn(RAWC, "c1", "nonlocal s", "s <<= self.d"), fn(CON, "c2", "nonlocal s", "s <<= 1"))
    add("raw:push+seq", "reject", fn(RAW, "p1", E1, "    if self.a:", "        self.o2 ^= self.d"), fn(SEQ, "p2", "if self.b:", "    self.o2 <<= 1"))
    add("raw:push+conc", "reject", fn(RAW, "p1", E1, "    if self.a:", "        self.o2 ^= self.d"), fn(CON, "c2", "self.o2 <<= 1"))
    add("raw:push+raw:push", "reject", fn(RAW, "p1", E1, "    if self.a:", "        self.o2 ^= self.d"), fn(RAW, "p2", E1, "    if self.b:", "        self.o2 ^= 1"))
    add("raw:push+raw:assign", "reject", fn(RAW, "p1", E1, "    if self.a:", "        self.o2 ^= self.d"), fn(RAW, "p2", E1, "    self.o2 <<= 1"))
    add("raw:push-slice+seq-other-slice", "reject", fn(RAW, "p1", E1, "    sb[1:0] ^= self.d[1:0]"), fn(SEQ, "p2", "sb[3:2] <<= self.d[3:2]"), fn(CON, "c3", "self.o2 <<= sb.unsigned"))
    add("raw:push-local-signal+conc", "reject", fn(RAW, "p1", "nonlocal s", E1, "    s ^= self.d"), fn(CON, "c2", "nonlocal s", "s <<= 1"))
    # --- several contexts created by the SAME source lines (helper called twice, loop, std.concurrent_assign) ------------
    MK = ["def mk(t, v):", "    @std.concurrent", "    def driver():", "        t.next = v"]
    MKS = ["def mks(t, v):", "    @std.sequential(clk)", "    def driver():", "        t.next = v"]
    add("same-origin:helper-twice-different-targets", "accept", MK + ["mk(s, self.d)", "mk(s2, 1)"], fn(CON, "c3", "self.o2 <<= s2"))
    add("same-origin:helper-twice-same-target", "reject", MK + ["mk(s, self.d)", "mk(s, 1)"])
    add("same-origin:seq-helper-twice-same-target", "reject", MKS + ["mks(s, self.d)", "mks(s, 1)"])
    add("same-origin:helper+explicit", "reject", MK + ["mk(s, self.d)"], fn(SEQ, "p2", "nonlocal s", "s <<= 1"))
    # distinct objects that were given the SAME name by the user (a helper called twice): each keeps its own declaration
    # and its own single driver in the emitted architecture (VHDL identifiers are case-insensitive)
    MKN = ["def stage(nm, src):", "    r = Signal[Unsigned[4]](0, name=nm)", "    @std.sequential(clk)", "    def stage_proc():", "        r.next = src", "    return r"]
    for tag, n1, n2 in (("lower", "stage_reg", "stage_reg"), ("mixed-case", "stageReg", "stageReg"), ("upper", "STAGE_REG", "STAGE_REG"), ("case-insensitive-pair", "stageReg", "stagereg"), ("like-own-local", "S2", "s2")):
        add("same-name:" + tag, "accept", MKN + [f"q1 = stage('{n1}', self.d)", f"q2 = stage('{n2}', q1)"], fn(CON, "c3", "nonlocal s", "s <<= q2"), fn(CON, "c4", "self.o2 <<= s2"))
    add("same-name:variables-mixed-case", "accept", ["def acc(nm, src, dst):", "    a = Variable[Unsigned[4]](0, name=nm)", "    @std.sequential(clk)", "    def acc_proc():", "        nonlocal a", "        a @= a + src", "        dst.next = a", "acc('accReg', self.d, s)", "acc('accReg', s, s2)"], fn(CON, "c4", "self.o2 <<= s2"))
    add("same-origin:loop-same-target", "reject", ["for k in range(2):", "    @std.sequential(clk)", "    def looped():", "        s.next = self.d + k"])
    add("same-origin:loop-disjoint-slices", "reject", ["for k in range(2):", "    @std.concurrent", "    def looped():", "        sb[2 * k + 1 : 2 * k] <<= self.d[1:0]"], fn(CON, "c3", "self.o2 <<= sb.unsigned"))
    add("same-origin:concurrent_assign-twice", "reject", ["std.concurrent_assign(s, self.d)", "std.concurrent_assign(s, Unsigned[4](1))"])
    add("same-origin:concurrent_assign-different-targets", "accept", ["std.concurrent_assign(s, self.d)", "std.concurrent_assign(s2, s)"], fn(CON, "c3", "self.o2 <<= s2"))
    add("same-origin:concurrent_eval-twice", "reject", ["std.concurrent_eval(s, lambda: self.d + 1)", "std.concurrent_eval(s, lambda: self.d + 2)"])
    # --- assignments made by inline VHDL (cohdl.vhdl f-strings), directly and through a helper expanded inside another one ---
    IL = 'f"{vhdl:{s} <= {self.d!r};}"'
    ILN = 'f"{vhdl:{drive(s, self.d)}}"'
    add("inline:assign-only", "accept", fn(CON, "c1", IL))
    add("inline-nested:assign-only", "accept", fn(CON, "c1", ILN))
    add("inline+seq", "reject", fn(CON, "c1", IL), fn(SEQ, "p2", "nonlocal s", "s <<= 1"))
    add("inline-nested+seq", "reject", fn(CON, "c1", ILN), fn(SEQ, "p2", "nonlocal s", "s <<= 1"))
    add("inline-nested+conc", "reject", fn(CON, "c1", ILN), fn(CON, "c2", "nonlocal s", "s <<= 1"))
    add("inline-nested+inline", "reject", fn(CON, "c1", ILN), fn(CON, "c2", IL))
    add("inline:write-input", "reject", fn(CON, "c1", 'f"{vhdl:{self.d} <= {s!r};}"'))
    add("inline-nested:write-input", "reject", fn(CON, "c1", 'f"{vhdl:{drive(self.d, s)}}"'))
    # --- code hoisted out of a process with cohdl.always: nothing of it may stay behind as a process variable ------------
    add("always:runtime-index-of-vector", "accept", fn(SEQ, "p1", "nonlocal s", "with cohdl.always:", "    self.ob <<= sb[self.d[1:0].unsigned]", "s <<= self.d"), fn(CON, "c2", "sb.next = self.d.bitvector"))
    add("always:runtime-index-of-array", "accept", fn(SEQ, "p1", "mem[0] <<= self.d", "self.o2 <<= cohdl.always(mem[self.d[1:0].unsigned])"))
    add("always:runtime-index-expression", "accept", fn(SEQ, "p1", "nonlocal s", "with cohdl.always:", "    self.ob <<= sb[(self.d[1:0].unsigned + 1)[1:0].unsigned]", "s <<= self.d"), fn(CON, "c2", "sb.next = self.d.bitvector"))
    add("always:reads-variable", "reject", fn(SEQ, "p1", "nonlocal v, s", "v @= self.d", "with cohdl.always:", "    self.o2 <<= v", "s <<= v"))
    add("always:value-reads-variable", "reject", fn(SEQ, "p1", "nonlocal v, s", "v @= self.d", "self.o2 <<= cohdl.always(v + 1)", "s <<= v"))
    # --- reset interplay ----------------------------------------------------------------------------------
    add("always-target-with-reset", "single-driver", fn(SEQR, "p1", "with cohdl.always:", "    s.next = self.d", "self.o2 <<= s"))
    add("seq-with-reset", "accept", fn(SEQR, "p1", "nonlocal s", "s <<= self.d", "self.o2 <<= s"))
    return C


CASES = cases()


def render_src(c):
    pre = PRE.replace("#SUBEXTRA", c["subextra"] or "pass")
    body = "\n".join("        " + l for l in c["lines"])
    return pre + body + "\n" + (POST if c["observe"] else "")


def static_conflicts(design):
    """scalar sub-elements of a signal that have more than one driving process (LRM: one driver per process and
    scalar sub-element of the longest static prefix)"""
    out = []
    leaves = {}
    for p in design.procs:
        for sid in p.writes:
            ty = design.signals[sid].ty
            total = kernel.leaf_count(ty)
            paths = p.write_paths.get(sid)
            ls = set()
            if not paths:
                ls = set(range(total))
            else:
                for path in paths:
                    if path is None:
                        ls = set(range(total))
                        break
                    try:
                        off, cnt = kernel.leaf_range(ty, path)
                        ls |= set(range(off, off + cnt))
                    except Exception:
                        ls = set(range(total))
                        break
            leaves.setdefault(sid, []).append((p.pid, ls))
    for sid, lst in leaves.items():
        for i in range(len(lst)):
            for j in range(i + 1, len(lst)):
                common = lst[i][1] & lst[j][1]
                if common:
                    pa, pb = design.procs[lst[i][0]], design.procs[lst[j][0]]
                    out.append({"signal": design.signals[sid].name, "leaves": sorted(common)[:4], "process_a": f"{pa.hier}:{pa.label or pa.kind}@{pa.line}", "process_b": f"{pb.hier}:{pb.label or pb.kind}@{pb.line}"})
    return out


def simulate(design, seed, idx):
    rs = rng.Stream(seed, "C07", "stim", idx)
    d = dutm.Dut(design, rng.derive(seed, "C07", "order", idx), "c07")
    d.start({"rst": 0, "a": 0, "b": 0, "d": 0})
    n = 40
    rst_at = rs.range(5, 30)
    for k in range(n):
        d.clock({"rst": 1 if rst_at <= k < rst_at + 2 else 0, "a": rs.below(2), "b": rs.below(2), "d": rs.below(16)})
        if d.sim.driver_conflicts:
            sid, pa, pb = d.sim.driver_conflicts[0][:3]
            return "two-active-drivers", {"clock": k, "signal": design.signals[sid].name, "processes": [str(pa), str(pb)]}
        d.half()
    return "ok", {}


def evaluate(c, seed, idx):
    """-> (outcome, vclass|None, detail, extra)   outcome: rejected | skipped | accepted"""
    src = render_src(c)
    try:
        design = dutm.compile_design(src)
    except render.Rejected as e:
        return "rejected", None, {"reason": f"{e.exc_type}: {e.message[:90]}"}
    except Exception as e:
        stt, det = dutm.guarded(lambda: (_ for _ in ()).throw(e))
        if stt == "legality":
            # an accepted design whose VHDL the reference elaborator refuses: only driver-related rules belong here
            if det.get("rule") in ("assign-to-input", "multiple-drivers", "variable-scope"):
                return "accepted", "accepted-" + det["rule"], dict(det, case=c["name"])
            if det.get("rule") == "undeclared":
                # an identifier that is not visible where it is used but IS declared as a variable of some process: a process
                # variable that appears outside its process (the statement's last sentence)
                mm = re.search(r"'(\w+)' is not declared", det.get("msg", ""))
                if mm:
                    try:
                        text, _ = render.compile_source(src, "E", sidecar=True)
                    except render.Rejected:
                        text = ""
                    if re.search(rf"(?im)^\s*variable\s+{re.escape(mm.group(1))}\s*:", text):
                        return "accepted", "accepted-process-variable-used-outside-its-process", dict(det, case=c["name"], variable=mm.group(1))
            return "skipped", None, {"reason": "illegal-vhdl:" + str(det.get("rule"))}
        return "accepted", stt, det
    if c["expected"] == "reject":
        return "accepted", "accepted-conflicting-drivers", {"case": c["name"], "body": c["lines"]}
    sc = static_conflicts(design)
    if sc:
        return "accepted", "static-two-drivers", {"case": c["name"], "conflicts": sc[:3]}
    out = dutm.guarded(lambda: simulate(design, seed, idx))
    if out[0] != "ok":
        return "accepted", out[0], dict(out[1], case=c["name"])
    return "accepted", None, {}


def run_one(seed, idx, tier):
    c = CASES[idx % len(CASES)]
    res = {"idx": idx, "shape": hashlib.sha256(c["name"].encode()).hexdigest()[:12], "case": c["name"], "expected": c["expected"]}
    outcome, vclass, detail = evaluate(c, seed, idx)
    if outcome == "skipped":
        res.update(status="skipped", reason=detail["reason"])
        return res
    res["outcome"] = outcome
    if outcome == "rejected":
        res.update(status="ok", reason=detail["reason"], unexpected_rejection=c["expected"] == "accept")
    elif vclass:
        res.update(status="violation", vclass=vclass, detail=detail, payload={"case": c["name"], "source": render_src(c), "seed": seed, "idx": idx})
    else:
        res["status"] = "ok"
    return res


def replay(payload):
    c = next(x for x in CASES if x["name"] == payload["case"])
    outcome, vclass, detail = evaluate(c, payload["seed"], payload["idx"])
    return vclass or outcome, detail


def plan(tier):
    return len(CASES) * (2 if tier == "quick" else 40)


def finding_key(r):
    c = r.get("case") or (r.get("detail") or {}).get("case")
    return f"C07:{r.get('vclass')}:{c}"


ASSUMPTIONS = [
    "the placement catalogue is hand-written (vf/props/c07.py); expected outcome counted from the placement exactly as the statement words it (any slice or element counts)",
    "accepted designs: static driver analysis per scalar sub-element on the elaborated VHDL + dynamic driver monitor over 40 clocks incl. a reset pulse",
    "an unexpected rejection of an accept-case is counted, not flagged",
    "contexts are built with the std wrappers and, in the raw:* placements, directly with cohdl.sequential_context / cohdl.concurrent_context (no implicit default write of pushed targets)",
]


def evidence(results, tier):
    by = {}
    for r in results:
        k = f"{r['expected']}->{r.get('outcome', r['status'])}" + ("(violation)" if r["status"] == "violation" else "")
        by[k] = by.get(k, 0) + 1
    nontriv = {r["shape"] for r in results if r.get("outcome") in ("accepted", "rejected")}
    samples = [{"case": c["name"], "expected": c["expected"], "body": c["lines"]} for c in CASES if c["name"] in ("slices-disjoint:seq+conc", "inst-two-outputs-same-signal")]
    return {
        "evaluations": len(results),
        "distinct_nontrivial": len(nontriv),
        "rule": "one evaluation = one placement case (%d cases: single writers, two writers of every context-kind pair, slices / elements / views, always-expressions, instance outputs, input ports, shared variables and intermediates, reset interplay) compiled by the real compiler; "
        "reject-cases must be rejected, accept-cases are elaborated (static per-sub-element driver map) and simulated 40 clocks with the dynamic driver monitor; distinct = distinct cases" % len(CASES),
        "samples": samples,
        "cases": len(CASES),
        "outcome_matrix(expected->observed)": by,
        "unexpected_rejections": [r["case"] for r in results if r.get("unexpected_rejection")][:20],
        "faults_fired": {"reset_pulse_in_every_simulated_case": True, "process_order": "seeded"},
        "real_components": ["cohdl compiler (EntityTemplate driver checks, variable scope checks)", "emitted VHDL"],
        "model_components": ["VSIM elaborator driver map + dynamic driver monitor", "placement catalogue"],
    }
