"""C03 — sequential and concurrent contexts obey hardware assignment semantics.

One run: generate a design with 1-3 contexts (clocked sequential, concurrent, unclocked sequential) chained
through signals (seeded) -> compile with the real CoHDL -> elaborate in VSIM (legality checks on) -> simulate under
seeded process order / input offsets / stimulus with the read-before-write monitor on and, for the unclocked
contexts, the dynamic sensitivity monitor -> compare every output after every clock with the reference
interpreter of the statement.
"""
from __future__ import annotations

import hashlib

from vf.core import rng
from vf.gen import render, seq
from vf.ref import seq_ref
from vf.tb import bench
from vf.vsim import elab, kernel
from vf.vsim.ieee import SimError
from vf.vsim.parse import Unsupported, VhdlError

PROP = "C03"
LEVEL = "exploration"


def gen_program(seed, idx, tier):
    rs = rng.Stream(seed, "C03", "program", idx)
    big = tier == "thorough" and rs.below(3) == 0
    return seq.Gen(rs, big=big).program()


def gen_stimulus(rs, n):
    out = []
    cur = {"a": rs.below(2), "b": rs.below(2), "c": rs.below(2), "d": rs.below(16), "u": rs.below(16)}
    mode = rs.below(3)
    for _ in range(n):
        if mode == 0:
            cur = {"a": rs.below(2), "b": rs.below(2), "c": rs.below(2), "d": rs.below(16), "u": rs.below(16)}
        else:
            # change exactly one input at a time (needed by the sensitivity monitor) most of the time
            cur = dict(cur)
            for _ in range(1 if mode == 1 or rs.below(3) else 2):
                x = rs.choice("abcdu")
                cur[x] = rs.below(16) if x in "du" else 1 - cur[x]
            if rs.below(5) == 0:
                cur["d"] = rs.choice([0, 1, 2, 4, 8, 15])
        out.append(cur)
    # step-condition input of the clocked contexts that have one (low in about a quarter of the steps, in short runs) and
    # the reset input, held inactive throughout (drawn from a stream of its own: the other inputs are as before)
    rs2 = rs.sub("en")
    low = 0
    for cur in out:
        if low:
            low -= 1
        elif rs2.below(6) == 0:
            low = rs2.range(1, 3)
        cur["en"] = 0 if low else 1
    return out


def compile_prog(prog, attrs=None):
    src = seq.render(prog, attrs)
    text, lib = render.compile_source(src, "E", sidecar=True)
    return src, text, render.temp_classifier(lib)


def simulate(prog, text, tn, stim, order_seed, order_mode="uniform"):
    stats = {}
    try:
        design = elab.elaborate_text(text, temp_names=tn)
    except VhdlError as e:
        return "legality", {"rule": e.rule, "msg": str(e)[:300]}, stats
    except Unsupported as e:
        return "unsupported", {"msg": str(e)[:300]}, stats
    has_comb = any(c["kind"] == "comb" for c in prog["ctxs"])
    b = bench.Bench(design, order_stream=rng.Stream(order_seed, "order"), offsets_stream=rng.Stream(order_seed, "offsets"), active=prog["edge"], order_mode=order_mode, check_sens=has_comb)
    ref = seq_ref.SeqRef(prog)
    sim = b.sim
    try:
        b.start(dict(stim[0]))
        ref.set_inputs(stim[0])
        prev = stim[0]
        for k, step in enumerate(stim):
            b.cycle(step, prev)
            prev = step
            ref.clock(step)
            exp = ref.outs()
            for phase in ("edge", "inactive-edge"):
                got = {n: b.get(n) for n in seq_ref.OUTS}
                if got != exp:
                    bad = {n: (exp[n], got[n]) for n in exp if exp[n] != got[n]}
                    return "mismatch", {"clock": k, "phase": phase, "signal(expected,got)": bad, "inputs": step}, stats
                if phase == "edge":
                    b.half()
            if sim.asserts:
                return "assert", {"clock": k, "asserts": [str(a) for a in sim.asserts[:3]]}, stats
            if sim.driver_conflicts:
                return "driver", {"clock": k, "conflicts": [str(a) for a in sim.driver_conflicts[:3]]}, stats
            if getattr(sim, "sens_violations", None):
                return "sensitivity", {"clock": k, "detail": [str(a) for a in sim.sens_violations[:3]]}, stats
    except kernel.ReadBeforeWrite as e:
        return "rbw", {"msg": str(e), "var": e.var}, stats
    except SimError as e:
        return "simerror", {"msg": str(e)[:300]}, stats
    finally:
        stats.update(deltas=sim.delta_count, activations=sim.activations, reorders=sim.reorders, clocks=b.cycles, branches=len(ref.branches), **{"off_" + k: v for k, v in b.offset_counts.items()})
    return "ok", {}, stats


def run_one(seed, idx, tier):
    prog = gen_program(seed, idx, tier)
    rs = rng.Stream(seed, "C03", "config", idx)
    attrs = None
    if rs.below(4) == 0:
        attrs = {"zero_init_temporaries": True}
    kinds = "+".join(c["kind"] for c in prog["ctxs"])
    res = {"idx": idx, "shape": hashlib.sha256(repr(seq.shape(prog)).encode()).hexdigest()[:16], "kinds": kinds, "nodes": sum(seq.count_nodes(c["body"]) for c in prog["ctxs"])}
    try:
        src, text, tn = compile_prog(prog, attrs)
    except render.Rejected as e:
        res.update(status="rejected", reason=f"{e.exc_type}: {e.message[:100]}")
        return res
    nstim = 2 if tier == "quick" else 4
    agg = {}
    for j in range(nstim):
        srs = rng.Stream(seed, "C03", "stimulus", idx, j)
        stim = gen_stimulus(srs, srs.range(30, 80 if tier == "quick" else 200))
        for s_ in stim:
            s_["rst"] = 1 if prog.get("rst_low") else 0  # inactive level
        oseed = rng.derive(seed, "C03", "order", idx, j)
        mode = ("uniform", "uniform", "reverse", "stable")[rng.Stream(oseed, "mode").below(4)]
        status, detail, stats = simulate(prog, text, tn, stim, oseed, mode)
        for k, v in stats.items():
            agg[k] = max(agg.get(k, 0), v) if k == "branches" else agg.get(k, 0) + v
        if status == "sensitivity":
            # an incomplete sensitivity list is a C06 matter as well (a stale output additionally shows as a mismatch here)
            res.update(status="skipped", reason="incomplete-sensitivity-list(see C06)", agg=agg)
            return res
        if status == "legality":
            # illegal VHDL is a C06 matter (the C06 check runs this generator too); not explored here
            res.update(status="skipped", reason="illegal-vhdl:" + str(detail.get("rule")), agg=agg)
            return res
        if status != "ok":
            res.update(status="harness" if status == "unsupported" else "violation", vclass=status, detail=detail, agg=agg, payload={"prog": prog, "attrs": attrs, "source": src, "vhdl": text, "stim": stim, "order_seed": oseed, "order_mode": mode})
            return res
    res.update(status="ok", agg=agg)
    return res


def replay(payload):
    try:
        src, text, tn = compile_prog(payload["prog"], payload.get("attrs"))
    except render.Rejected as e:
        return "rejected", {"reason": str(e)}
    status, detail, _ = simulate(payload["prog"], text, tn, payload["stim"], payload["order_seed"], payload.get("order_mode", "uniform"))
    return status, detail


def shrink(payload, r):
    """cut the stimulus after the failing clock, then try to drop whole contexts' trailing statements"""
    p = dict(payload)
    k = (r.get("detail") or {}).get("clock")
    if isinstance(k, int):
        p["stim"] = payload["stim"][: k + 1]
    return p


def plan(tier):
    return 3000 if tier == "quick" else 60000


def finding_key(r):
    return None


ASSUMPTIONS = [
    "VSIM stands in for a VHDL simulator (conformance-checked against the upstream testbenches)",
    "reference = interpreter of the program tree written from the statement (signals commit after the activation, per bit for slice/element targets; variables immediately; "
    "pushed value for one step; concurrent / always-hoisted expressions continuously; first true branch wins)",
    "programs: 1-3 contexts, <= 12 statements per context, depth <= 3, 4-bit data; runs <= 200 clocks",
    "combinational contexts read only inputs and registered objects (no combinational loops are generated)",
    "clocked contexts optionally carry a synchronous / asynchronous Reset of either polarity that is held inactive for the whole run (reset behaviour is C04's subject) and a run-time "
    "step condition (input en, low in short runs): a step whose condition is false executes nothing and every target, a pushed one included, holds",
]

_seed = [1]


def prepare(seed, tier):
    _seed[0] = seed


def evidence(results, tier):
    ok = [r for r in results if r["status"] == "ok"]
    rej = [r for r in results if r["status"] == "rejected"]
    agg = {}
    for r in results:
        for k, v in (r.get("agg") or {}).items():
            agg[k] = agg.get(k, 0) + v
    shapes = {(r["shape"], min(r["agg"].get("branches", 0), 6)) for r in ok if r["agg"].get("branches", 0) >= 2}
    rr = {}
    for r in rej:
        rr[r["reason"][:90]] = rr.get(r["reason"][:90], 0) + 1
    kinds = {}
    for r in ok:
        kinds[r["kinds"]] = kinds.get(r["kinds"], 0) + 1
    sample = None
    for r in ok:
        if r["nodes"] >= 7 and r["agg"].get("branches", 0) >= 3:
            prog = gen_program(_seed[0], r["idx"], tier)
            sample = {"run": r["idx"], "contexts": r["kinds"], "source": seq.render(prog).split("def architecture(self):")[1], "distinct_branches_executed": r["agg"]["branches"]}
            break
    return {
        "evaluations": len(results),
        "distinct_nontrivial": len(shapes),
        "rule": "one evaluation = one generated design (1-3 contexts of kinds clocked / concurrent / unclocked sequential chained through signals) compiled by the real CoHDL and "
        "simulated under 2 (quick) / 4 (thorough) seeded schedules with per-clock comparison of all outputs with the reference; distinct = distinct (program-shape hash, branch count class); "
        "non-trivial = accepted and >= 2 distinct branches of if/match/for constructs executed",
        "samples": [sample] if sample else [],
        "accepted": len(ok),
        "rejected_not_explored": len(rej),
        "illegal_vhdl_not_explored(see C06)": len([r for r in results if r["status"] == "skipped"]),
        "rejection_reasons": dict(sorted(rr.items(), key=lambda kv: -kv[1])[:12]),
        "context_kind_combinations": kinds,
        "simulated_clocks": agg.get("clocks", 0),
        "delta_cycles": agg.get("deltas", 0),
        "branch_instances_executed": agg.get("branches", 0),
        "faults_fired": {"process_order_permutations": agg.get("reorders", 0), "input_offset_pre": agg.get("off_pre", 0), "input_offset_post": agg.get("off_post", 0), "input_glitch": agg.get("off_glitch", 0), "read_before_write_monitor": "on in every run", "sensitivity_monitor": "on for designs with an unclocked sequential context"},
        "real_components": ["cohdl compiler (front end, IR, VHDL back end, std.sequential / std.concurrent)", "emitted VHDL text"],
        "model_components": ["VSIM", "ieee re-implementation", "assignment-semantics reference interpreter", "testbench driver"],
    }


def acceptance(cov, tier):
    if cov["accepted"] < cov["evaluations"] // 2:
        return [f"only {cov['accepted']} of {cov['evaluations']} generated designs were accepted"]
    return []
