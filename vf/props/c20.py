"""C20 — AXI4-Lite register maps decode, mask and hand-shake correctly.

A seeded register map from a restricted grammar (MemWord / MemUWord with defaults, Registers with MemField / MemUField
at seeded bit offsets, a counter register with read / write notifications, a nested RegFile, an Array of registers,
Memory blocks (all mask modes) and AddrRange hooks at word offsets that are not size aligned, holes; map sizes that are and are not a power of two) is connected through std.axi.axi4_light.connect_addr_map and
compiled by the real compiler.  A seeded AXI4-Lite master drives the five channels with independent per-clock
decisions: AW before W, W before AW, same clock; bready / rready early, late, toggling, permanently high; back-to-back
and pipelined transactions (next AW/W while the previous B is outstanding); reads and writes concurrently; partial
strobes; mapped, unmapped and hole addresses.  The master itself obeys the protocol (valid held until ready).
Checked while the run proceeds: slave-side protocol monitors (valid never withdrawn before ready, payload stable while
valid, exactly one B per accepted AW+W pair and one R per accepted AR, never a response without a request, bounded
response time while the master is ready) and a register model (a write changes exactly the strobed bytes of exactly
the addressed register according to the field kinds, a read returns the model's value, unmapped accesses change
nothing, every access of the counter register is counted exactly once).
A quarter of the maps sit behind std.axi.axi4_light.interconnect.Interconnect (2-3 slaves in power-of-two windows with
gaps: accesses outside every window are answered exactly once with DECERR); Memory blocks configured with
allow_unaligned are also accessed at addresses that are not word aligned, with partial strobes (byte-level model).
"""
from __future__ import annotations

import hashlib

from vf.core import rng
from vf.gen import render
from vf.tb import dut as dutm

PROP = "C20"
LEVEL = "exploration"

HEAD = """from __future__ import annotations
import cohdl
from cohdl import Port, Signal, Bit, BitVector, Unsigned, Signed, Null, Full
from cohdl import std
from cohdl.std.axi import axi4_light as axi
from cohdl.std.reg import reg32

"""

PORTS = """    clk = Port.input(Bit)
    reset = Port.input(Bit)
    axi_awaddr = Port.input(Unsigned[32])
    axi_awprot = Port.input(Unsigned[3])
    axi_awvalid = Port.input(Bit)
    axi_awready = Port.output(Bit, default=Null)
    axi_wdata = Port.input(BitVector[32])
    axi_wstrb = Port.input(BitVector[4])
    axi_wvalid = Port.input(Bit)
    axi_wready = Port.output(Bit, default=Null)
    axi_bresp = Port.output(BitVector[2], default=Null)
    axi_bvalid = Port.output(Bit, default=Null)
    axi_bready = Port.input(Bit)
    axi_araddr = Port.input(Unsigned[32])
    axi_arprot = Port.input(Unsigned[3])
    axi_arvalid = Port.input(Bit)
    axi_arready = Port.output(Bit, default=Null)
    axi_rdata = Port.output(BitVector[32], default=Null)
    axi_rresp = Port.output(BitVector[2], default=Null)
    axi_rvalid = Port.output(Bit, default=Null)
    axi_rready = Port.input(Bit)
"""

ARCH = """
    def architecture(self):
        clk = std.Clock(self.clk)
        reset = std.Reset(self.reset)
        axi_con = axi.Axi4Light(
            clk=clk,
            reset=reset,
            wraddr=axi.Axi4Light.WrAddr(valid=self.axi_awvalid, ready=self.axi_awready, awaddr=self.axi_awaddr, awprot=self.axi_awprot),
            wrdata=axi.Axi4Light.WrData(valid=self.axi_wvalid, ready=self.axi_wready, wdata=self.axi_wdata, wstrb=self.axi_wstrb),
            wrresp=axi.Axi4Light.WrResp(valid=self.axi_bvalid, ready=self.axi_bready, bresp=self.axi_bresp),
            rdaddr=axi.Axi4Light.RdAddr(valid=self.axi_arvalid, ready=self.axi_arready, araddr=self.axi_araddr, arprot=self.axi_arprot),
            rddata=axi.Axi4Light.RdData(valid=self.axi_rvalid, ready=self.axi_rready, rdata=self.axi_rdata, rresp=self.axi_rresp),
        )
        axi_con.connect_addr_map(Root())
"""


def gen_map(rs, small=False, force_mem=None):
    """-> {"words": W, "entries": [entry...]}; entry kinds: mem, memu(default), fields, cnt, file(2 words), array(n words)
    force_mem = n: the map starts with a Memory of n words at offset 0 (declared Memory[0:4n])"""
    W = rs.choice([2, 3, 4, 5, 8] if small else [4, 5, 6, 8, 11, 12, 16])
    if force_mem:
        W = max(W, force_mem + 1)
    free = list(range(W))
    entries = []
    if force_mem:
        for i in range(force_mem):
            free.remove(i)
        entries.append({"kind": "memory", "word": 0, "n": force_mem, "mode": rs.choice(["IMMEDIATE", "IGNORE", "READBACK"]), "inline": rs.below(2) == 0, "noreset": False, "init": None, "decl": "slice", "unaligned": False})
    nreg = rs.range(2, min(W, 7))
    cls_id = [0]
    for _ in range(nreg):
        if not free:
            break
        kind = rs.weighted([(4, "mem"), (3, "memu"), (4, "fields"), (2, "cnt"), (2, "file"), (2, "array"), (4, "memory"), (1, "range"), (2, "input"), (2, "output"), (2, "flag")])
        if kind in ("file", "array", "memory", "range"):
            nest = rs.choice([1, 2]) if kind == "file" else 0
            n = (2 if nest == 1 else 4) if kind == "file" else rs.range(2, 3) if kind == "array" else rs.choice([2, 2, 3, 4, 4, 8])
            starts = [w for w in free if all((w + i) in free for i in range(n))]
            if not starts:
                kind = "mem"
            else:
                w0 = rs.choice(starts)
                for i in range(n):
                    free.remove(w0 + i)
                e = {"kind": kind, "word": w0, "n": n}
                if kind == "file":
                    e["nest"] = nest
                if kind == "memory":
                    e["mode"] = rs.choice(["IMMEDIATE", "IMMEDIATE", "IGNORE", "READBACK", "SPLIT_WORDS", "SPLIT_WORDS"])
                    e["inline"] = rs.below(3) == 0
                    e["noreset"] = rs.below(3) == 0
                    e["init"] = None if rs.below(3) == 0 else [rs.bits(32) for _ in range(n)]
                    e["decl"] = rs.choice(["slice", "class"])
                    e["unaligned"] = e["mode"] == "SPLIT_WORDS" and rs.below(3) != 0
                if kind == "range":
                    e["relative"] = rs.below(2) == 1
                entries.append(e)
                continue
        w0 = rs.choice(free)
        free.remove(w0)
        e = {"kind": kind, "word": w0}
        if kind == "memu":
            e["default"] = rs.choice([0, 1234, 0xFFFFFFFF, rs.bits(32)])
        if kind == "flag":
            e["bit"] = rs.choice([31, 31, 24, 16])
        if kind in ("input", "output"):
            # hardware-side signal of w bits at bit offset o of the word (Input: read-only view of an entity input;
            # Output: write-only register driving an entity output)
            e["w"] = rs.choice([1, 4, 8, 13, 32])
            e["o"] = rs.choice([0, 0, rs.below(33 - e["w"])]) if e["w"] < 32 else 0
            e["how"] = rs.choice(["offpad", "offpad", "lsbs" if e["o"] == 0 else "offpad", "msbs" if e["o"] + e["w"] == 32 else "offpad"])
        if kind == "fields":
            # 1..3 non-overlapping fields
            cuts = sorted(rs.sample(list(range(1, 32)), rs.range(1, 4)))
            spans = []
            lo = 0
            for c in cuts + [32]:
                if rs.below(3) != 0 and c - lo >= 1:
                    hi = c - 1
                    l2 = lo + (rs.below(2) if c - lo > 2 else 0)
                    spans.append([hi, l2, rs.choice(["Null", "Full"]), rs.choice(["MemField", "MemUField"])])
                lo = c
            if not spans:
                spans = [[15, 8, "Null", "MemField"]]
            e["fields"] = spans[:3]
        entries.append(e)
    return {"words": W, "entries": sorted(entries, key=lambda x: x["word"])}


def render_map(m, tag=""):
    """-> source lines defining the register classes of one map and its root class Root<tag>"""
    L = []
    root = []
    for i, e in enumerate(m["entries"]):
        off = e["word"] * 4
        k = e["kind"]
        if k == "mem":
            root.append(f"    r{i}: reg32.MemWord[{off:#x}]")
        elif k == "memu":
            root.append(f"    r{i}: reg32.MemUWord[{off:#x}]")
        elif k == "fields":
            L.append(f"class F{tag}_{i}(reg32.Register):")
            for j, (hi, lo, dflt, ft) in enumerate(e["fields"]):
                rng_ = f"{hi}:{lo}" if hi != lo else f"{hi}:{lo}"
                L.append(f"    f{j}: reg32.{ft}[{rng_}, {dflt}]")
            L.append("")
            root.append(f"    r{i}: F{tag}_{i}[{off:#x}]")
        elif k == "cnt":
            L += [
                f"class C{tag}_{i}(reg32.Register):",
                "    data: reg32.MemField[15:0, Null]",
                "    rd_cnt: reg32.UField[23:16, Null]",
                "    wr_cnt: reg32.UField[31:24, Null]",
                "    rd_n: reg32.PushOnNotify.Read",
                "    wr_n: reg32.PushOnNotify.Write",
                "    def _impl_sequential_(self):",
                "        if self.rd_n:",
                "            self.rd_cnt <<= self.rd_cnt.val() + 1",
                "        if self.wr_n:",
                "            self.wr_cnt <<= self.wr_cnt.val() + 1",
                "",
            ]
            root.append(f"    r{i}: C{tag}_{i}[{off:#x}]")
        elif k == "file" and e.get("nest") == 2:
            # a RegFile inside a RegFile (the inner one at a non-zero offset of the outer one, word 1 of the outer is a hole)
            L += [f"class H{tag}_{i}(reg32.RegFile, word_count=2):", "    m0: reg32.MemWord[0x0]", "    m1: reg32.MemUWord[0x4]", ""]
            L += [f"class G{tag}_{i}(reg32.RegFile, word_count=4):", "    top: reg32.MemWord[0x0]", f"    inner: H{tag}_{i}[0x8]", ""]
            root.append(f"    r{i}: G{tag}_{i}[{off:#x}]")
        elif k == "file":
            L += [f"class G{tag}_{i}(reg32.RegFile, word_count=2):", "    m0: reg32.MemWord[0x0]", "    m1: reg32.MemUWord[0x4]", ""]
            root.append(f"    r{i}: G{tag}_{i}[{off:#x}]")
        elif k == "array":
            root.append(f"    r{i}: reg32.Array[reg32.MemWord, {off}:{off + 4 * e['n']}:4]")
        elif k == "memory":
            if e["decl"] == "class":
                L += [f"class M{tag}_{i}(reg32.Memory, word_count={e['n']}):", "    pass", ""]
                root.append(f"    r{i}: M{tag}_{i}[{off:#x}]")
            else:
                root.append(f"    r{i}: reg32.Memory[{off:#x}:{off + 4 * e['n']:#x}]")
        elif k == "flag":
            # a sticky write-1-to-set flag (FlagField, never cleared by the hardware side here) next to a plain field
            L += [f"class K{tag}_{i}(reg32.Register):", "    data: reg32.MemField[15:0, Null]", f"    flag: reg32.FlagField[{e.get('bit', 31)}]", ""]
            root.append(f"    r{i}: K{tag}_{i}[{off:#x}]")
        elif k == "input":
            root.append(f"    r{i}: reg32.Input[{off:#x}]")
        elif k == "output":
            root.append(f"    r{i}: reg32.Output[{off:#x}]")
        elif k == "range":
            fn = "_on_read_relative_" if e["relative"] else "_on_read_"
            L += [f"class A{tag}_{i}(reg32.AddrRange, word_count={e['n']}):", f"    def {fn}(self, addr):", "        return std.leftpad(addr, 32).bitvector", ""]
            root.append(f"    r{i}: A{tag}_{i}[{off:#x}]")
    L.append(f"class Root{tag}(reg32.AddrMap, word_count={m['words']}):")
    L += root
    cfg = [f"        self.r{i}._config_({e['default']})" for i, e in enumerate(m["entries"]) if e["kind"] == "memu"]
    for i, e in enumerate(m["entries"]):
        if e["kind"] == "memory":
            init = "Null" if e["init"] is None else "[Unsigned[32](v) for v in " + repr(e["init"]) + "]"
            cfg.append(f"        self.r{i}._config_(initial={init}, noreset={e['noreset']}, mask_mode=reg32.Memory.MaskMode.{e['mode']}, inline={e['inline']}{', allow_unaligned=True' if e.get('unaligned') else ''})")
    hw = False
    for i, e in enumerate(m["entries"]):
        if e["kind"] in ("input", "output"):
            hw = True
            how = {"lsbs": "lsbs=True", "msbs": "msbs=True", "offpad": f"offset={e['o']}, padding={32 - e['w'] - e['o']}"}[e["how"]]
            cfg.append(f"        self.r{i}._config_(hw['{hw_name(e, tag, i)}'], {how})")
    if cfg:
        L += ["    def _config_(self, hw):" if hw else "    def _config_(self):"] + cfg
    L.append("")
    return L


def hw_name(e, tag, i):
    return f"hw_{'in' if e['kind'] == 'input' else 'out'}{tag}_{i}"


def hw_ports(m):
    """[(port name, 'in'|'out', width, global word, bit offset)] of the Input / Output registers of a map (or of all slaves)"""
    out = []
    if "slaves" in m:
        for j, (off, size, mj) in enumerate(m["slaves"]):
            for i, e in enumerate(mj["entries"]):
                if e["kind"] in ("input", "output"):
                    out.append((hw_name(e, f"S{j}", i), "in" if e["kind"] == "input" else "out", e["w"], e["word"] + off // 4, e["o"]))
    else:
        for i, e in enumerate(m["entries"]):
            if e["kind"] in ("input", "output"):
                out.append((hw_name(e, "", i), "in" if e["kind"] == "input" else "out", e["w"], e["word"], e["o"]))
    return out


def hw_decl(m):
    L = []
    for name, d, w, _, _ in hw_ports(m):
        L.append(f"    {name} = Port.input(BitVector[{w}])" if d == "in" else f"    {name} = Port.output(BitVector[{w}], default=Null)")
    return "\n".join(L) + ("\n" if L else "")


def hw_dict(m):
    return "{" + ", ".join(f"'{n}': self.{n}" for n, *_ in hw_ports(m)) + "}"


def has_hw(mj):
    return any(e["kind"] in ("input", "output") for e in mj["entries"])


def render_src(m):
    if "slaves" in m:
        L = [HEAD, "from cohdl.std.axi.axi4_light.interconnect import Interconnect", ""]
        con = [f"        hw = {hw_dict(m)}", "        ic = Interconnect(axi_con)"]
        for j, (off, size, mj) in enumerate(m["slaves"]):
            L += render_map(mj, f"S{j}")
        # reserved in seeded order (the order of reserve() is the order of the slaves inside the interconnect)
        for j in m["connect_order"]:
            off, size, _ = m["slaves"][j]
            con.append(f"        s{j} = ic.reserve({off:#x}, {size:#x}, prefix='s{j}_')")
        for j in m["connect_order"]:
            con.append(f"        s{j}.connect_addr_map(RootS{j}({'hw' if has_hw(m['slaves'][j][2]) else ''}))")
        arch = ARCH.replace("        axi_con.connect_addr_map(Root())\n", "\n".join(con) + "\n")
        return "\n".join(L + ["class E(cohdl.Entity):", PORTS + hw_decl(m), arch]) + "\n"
    arch = ARCH.replace("connect_addr_map(Root())", f"connect_addr_map(Root({hw_dict(m)}))") if has_hw(m) else ARCH
    return "\n".join([HEAD] + render_map(m) + ["class E(cohdl.Entity):", PORTS + hw_decl(m), arch]) + "\n"


def gen_interconnect(rs):
    """2-3 slaves behind std.axi.axi4_light.interconnect.Interconnect, each with its own seeded map in a power-of-two window
    (size-aligned, optionally with unmapped gaps between the windows, which the interconnect answers with DECERR).
    -> combined map (entries shifted to global word numbers) + "slaves": [(offset, size, map)]"""
    slaves = []
    cursor = 0
    entries = []
    # (half of the topologies: the first two slaves both start with a Memory at THEIR offset 0, of different sizes -- the
    # same generic arguments except the end address)
    forced = rs.sample([2, 4, 3], 2) if rs.below(2) else None
    for j in range(rs.range(2, 3)):
        mj = gen_map(rs, small=True, force_mem=forced[j] if forced and j < 2 else None)
        size = 4
        while size < 4 * mj["words"]:
            size *= 2
        if rs.below(4) == 0:
            size *= 2
        cursor = (cursor + size - 1) // size * size
        if rs.below(3) == 0:
            cursor += size
        slaves.append((cursor, size, mj))
        for e in mj["entries"]:
            # (an AddrRange hook that receives the address itself sees the address inside the slave's own window)
            entries.append(dict(e, word=e["word"] + cursor // 4, local_word=e["word"]))
        cursor += size
    order = rs.sample(list(range(len(slaves))), len(slaves))
    return {"words": cursor // 4, "entries": entries, "slaves": slaves, "connect_order": order}


def decerr_of(m):
    if "slaves" not in m:
        return None
    return lambda a: not any(off <= a < off + size for off, size, _ in m["slaves"])



class Model:
    """word address -> register description; value model with byte strobes and field kinds"""

    def __init__(self, m):
        self.m = m
        self.words = {}
        for e in m["entries"]:
            k = e["kind"]
            if k in ("mem", "memu"):
                self.words[e["word"]] = {"kind": k, "wmask": 0xFFFFFFFF, "val": e.get("default", 0) & 0xFFFFFFFF}
            elif k == "fields":
                wm = 0
                val = 0
                for hi, lo, dflt, ft in e["fields"]:
                    fm = ((1 << (hi - lo + 1)) - 1) << lo
                    wm |= fm
                    if dflt == "Full":
                        val |= fm
                self.words[e["word"]] = {"kind": k, "wmask": wm, "val": val}
            elif k == "cnt":
                self.words[e["word"]] = {"kind": k, "wmask": 0xFFFF, "val": 0, "rd": 0, "wr": 0}
            elif k in ("file", "array"):
                for i in range(e["n"]):
                    if k == "file" and e.get("nest") == 2 and i == 1:
                        continue  # hole inside the outer RegFile
                    self.words[e["word"] + i] = {"kind": "mem", "wmask": 0xFFFFFFFF, "val": 0}
            elif k == "memory":
                for i in range(e["n"]):
                    self.words[e["word"] + i] = {"kind": "memory", "wmask": 0xFFFFFFFF, "val": e["init"][i] if e["init"] else 0, "ignore_strb": e["mode"] == "IGNORE", "unaligned": bool(e.get("unaligned")), "last": i == e["n"] - 1}
            elif k == "flag":
                self.words[e["word"]] = {"kind": "flag", "wmask": 0xFFFF, "val": 0, "flag": 0, "bit": e.get("bit", 31)}
            elif k == "input":
                self.words[e["word"]] = {"kind": "input", "wmask": 0, "val": 0, "w": e["w"], "o": e["o"]}
            elif k == "output":
                self.words[e["word"]] = {"kind": "output", "wmask": ((1 << e["w"]) - 1) << e["o"], "val": 0, "w": e["w"], "o": e["o"]}
            elif k == "range":
                for i in range(e["n"]):
                    self.words[e["word"] + i] = {"kind": "range", "wmask": 0, "val": 4 * i if e["relative"] else 4 * (e.get("local_word", e["word"]) + i)}
        self.reset_state = {w: dict(d) for w, d in self.words.items()}

    def reset(self):
        self.words = {w: dict(d) for w, d in self.reset_state.items()}

    def write(self, addr, data, strb):
        w = self.words.get(addr >> 2) if addr < self.m["words"] * 4 else None
        if w is None:
            return
        if addr & 3:
            # unaligned access of a Memory that allows it: byte lane i of the bus goes to byte address addr + i
            for i in range(4):
                if (strb >> i) & 1:
                    ww = self.words[(addr + i) >> 2]
                    sh = 8 * ((addr + i) & 3)
                    ww["val"] = (ww["val"] & ~(0xFF << sh)) | (((data >> (8 * i)) & 0xFF) << sh)
            return
        bm = 0
        for b in range(4):
            if (strb >> b) & 1:
                bm |= 0xFF << (8 * b)
        if w.get("ignore_strb"):
            bm = 0xFFFFFFFF
        mask = bm & w["wmask"]
        w["val"] = (w["val"] & ~mask) | (data & mask)
        if w["kind"] == "flag" and (bm >> w["bit"]) & 1 and (data >> w["bit"]) & 1:
            w["flag"] = 1  # write-1-to-set; writing 0, or not strobing its byte, leaves the flag as it is
        if w["kind"] == "cnt":
            w["wr"] = (w["wr"] + 1) & 0xFF
            w.setdefault("wr_t", []).append(self.now)

    now = 0

    def read(self, addr):
        """-> (expected value, set of acceptable values).  The counter register's user logic increments one clock
        after the notification pulse, so an access that completed within the last few clocks may not be counted yet
        in the value a read returns; every access must still be counted exactly once (checked by later reads)."""
        w = self.words.get(addr >> 2) if addr < self.m["words"] * 4 else None
        if w is None:
            return 0, {0}
        if addr & 3:
            v = 0
            for i in range(4):
                ww = self.words[(addr + i) >> 2]
                v |= ((ww["val"] >> (8 * ((addr + i) & 3))) & 0xFF) << (8 * i)
            return v, {v}
        if w["kind"] == "cnt":
            lag_r = len([t for t in w.get("rd_t", []) if self.now - t <= 3])
            lag_w = len([t for t in w.get("wr_t", []) if self.now - t <= 3])
            ok = {(w["val"] & 0xFFFF) | (((w["rd"] - i) & 0xFF) << 16) | (((w["wr"] - j) & 0xFF) << 24) for i in range(lag_r + 1) for j in range(lag_w + 1)}
            v = (w["val"] & 0xFFFF) | (w["rd"] << 16) | (w["wr"] << 24)
            w["rd"] = (w["rd"] + 1) & 0xFF
            w.setdefault("rd_t", []).append(self.now)
            return v, ok
        if w["kind"] == "flag":
            v = w["val"] | (w["flag"] << w["bit"])
            return v, {v}
        if w["kind"] == "output":
            return 0, {0}  # write-only: not readable, reads like an unmapped word
        return w["val"], {w["val"]}


def gen_traffic(rs, m, n):
    """list of transactions {"op": "w"|"r", "addr", "data", "strb", timing knobs}"""
    W = m["words"]
    model_words = Model(m).words
    mapped = sorted(model_words)
    holes = [w for w in range(W) if w not in mapped]
    ops = []
    for i in range(n):
        c = rs.below(20)
        if c < 14 and mapped:
            wa = rs.choice(mapped)
        elif c < 17 and holes:
            wa = rs.choice(holes)
        else:
            wa = W + rs.below(8)  # beyond the map
        addr = wa * 4
        wd = model_words.get(wa)
        if wd and wd.get("unaligned") and not wd.get("last") and rs.below(2) == 0:
            addr += rs.range(1, 3)  # unaligned access that stays inside the memory
        t = {"op": "w" if rs.below(2) else "r", "addr": addr}
        if t["op"] == "w":
            t["data"] = rs.choice([0, 0xFFFFFFFF, rs.bits(32), rs.bits(32), 0xA5A5A5A5])
            t["strb"] = rs.choice([15, 15, 15, rs.range(0, 15), 1, 8, 3, 12])
            if addr & 3:
                t["strb"] = rs.choice([1, 2, 4, 8, 3, 6, 12, 5, 10, 15, 7, 14, rs.range(0, 15)])
            t["aw_delay"] = rs.choice([0, 0, 1, 2, rs.below(6)])
            t["w_delay"] = rs.choice([0, 0, 1, 2, rs.below(6)])
            t["b_ready"] = rs.choice(["high", "late", "toggle", "after"])
            t["b_late"] = rs.below(5)
        else:
            t["ar_delay"] = rs.choice([0, 0, 1, rs.below(5)])
            t["r_ready"] = rs.choice(["high", "late", "toggle", "after"])
            t["r_late"] = rs.below(5)
        t["gap"] = rs.choice([0, 0, 0, 1, 3, rs.below(8)])
        ops.append(t)
    return ops


def overlaps(busy, addr):
    """does a 4-byte access at addr touch a byte of an access in flight (unaligned accesses span two words)"""
    return any(abs(a - addr) < 4 for a in busy)


def simulate(m, design, ops, seed, idx, pipelined, reset_at=None, decerr=None):
    """clock-by-clock master + monitors + model"""
    d = dutm.Dut(design, rng.derive(seed, "C20", "order", idx), "c20", offsets=False)
    rs = rng.Stream(seed, "C20", "agent", idx)
    model = Model(m)
    idle = {"reset": 0, "axi_awaddr": 0, "axi_awprot": 0, "axi_awvalid": 0, "axi_wdata": 0, "axi_wstrb": 0, "axi_wvalid": 0, "axi_bready": 0, "axi_araddr": 0, "axi_arprot": 0, "axi_arvalid": 0, "axi_rready": 0}
    hw = hw_ports(m)
    hw_in = [(n, w, word, o) for n, dr, w, word, o in hw if dr == "in"]
    hw_out = [(n, w, word, o) for n, dr, w, word, o in hw if dr == "out"]
    in_word = {word: n for n, w, word, o in hw_in}
    for n, w, word, o in hw_in:
        idle[n] = 0
    hw_hist = {n: [] for n, *_ in hw_in}
    d.start(dict(idle))
    # reset for two clocks
    for _ in range(2):
        d.clock(dict(idle, reset=1))
        d.half()
    wq = [t for t in ops if t["op"] == "w"]
    rq = [t for t in ops if t["op"] == "r"]
    st = {"aw_hs": 0, "w_hs": 0, "b_hs": 0, "ar_hs": 0, "r_hs": 0, "clocks": 0, "pipelined_writes": 0, "b_waited": 0, "r_waited": 0, "unmapped": 0, "partial_strobe": 0, "aw_first": 0, "w_first": 0, "same_clock": 0}
    # write side state
    wi = 0  # index of the write whose AW/W are being presented
    aw_sent = w_sent = False
    aw_wait = w_wait = None
    pending_b = []  # writes with both AW and W accepted, waiting for B
    accepted_aw = []
    accepted_w = []
    w_gap = 0
    # read side
    ri = 0
    ar_sent = False
    ar_wait = None
    pending_r = []
    r_gap = 0
    bvalid_prev = rvalid_prev = None
    hs_b_prev = hs_r_prev = False
    rdata_prev = None
    b_age = r_age = 0
    busy_w = {}  # addresses with a write in flight (ordering with reads is then unspecified)
    k = 0
    limit = 40 * len(ops) + 400
    drive = dict(idle)
    while (wi < len(wq) or ri < len(rq) or pending_b or pending_r or accepted_aw or accepted_w) and k < limit:
        drive = dict(drive)
        # hardware-side inputs of Input registers: change now and then, one history entry per clock
        for n, w, word, o in hw_in:
            if rs.below(10) == 0:
                drive[n] = rs.choice([0, (1 << w) - 1, rs.bits(w), rs.bits(w)])
            hw_hist[n].append(drive[n])
        # ---- master decisions for this clock (values present at the coming edge) -------------------
        # write address / data channels
        if wi < len(wq):
            t = wq[wi]
            can_issue = pipelined or not (pending_b or accepted_aw or accepted_w) or aw_sent or w_sent
            if w_gap > 0 and not (aw_sent or w_sent) and aw_wait is None:
                w_gap -= 1
            elif can_issue:
                if aw_wait is None:
                    aw_wait, w_wait = t["aw_delay"], t["w_delay"]
                    # the write is in flight from the moment the master starts to present it (not only from the AW
                    # handshake): a read that is offered or outstanding now, or issued before the B response, is
                    # concurrent with it and AXI leaves their order open
                    busy_w[t["addr"]] = busy_w.get(t["addr"], 0) + 1
                    for pr_ in pending_r:
                        if abs(pr_["addr"] - t["addr"]) < 4:
                            pr_["_overlap"] = True
                    if ri < len(rq) and ar_wait is not None and abs(rq[ri]["addr"] - t["addr"]) < 4:
                        rq[ri]["_overlap"] = True
                if not aw_sent and aw_wait == 0:
                    drive.update(axi_awvalid=1, axi_awaddr=t["addr"], axi_awprot=0)
                if not w_sent and w_wait == 0:
                    drive.update(axi_wvalid=1, axi_wdata=t["data"], axi_wstrb=t["strb"])
                if aw_wait:
                    aw_wait -= 1
                if w_wait:
                    w_wait -= 1
        # write response channel
        if pending_b:
            t = pending_b[0]
            mode = t["b_ready"]
            rdy = 1 if mode == "high" else (1 if b_age >= t["b_late"] else 0) if mode == "late" else rs.below(2) if mode == "toggle" else (1 if bvalid_prev else 0)
            drive["axi_bready"] = rdy
        else:
            drive["axi_bready"] = rs.below(2)  # ready may be high without a request
        # read address
        if ri < len(rq):
            t = rq[ri]
            can_issue = pipelined or not pending_r or ar_sent
            if r_gap > 0 and ar_wait is None:
                r_gap -= 1
            elif can_issue and not overlaps(busy_w, t["addr"]):
                if ar_wait is None:
                    ar_wait = t["ar_delay"]
                if ar_wait == 0:
                    drive.update(axi_arvalid=1, axi_araddr=t["addr"], axi_arprot=0)
                else:
                    ar_wait -= 1
        if pending_r:
            t = pending_r[0]
            mode = t["r_ready"]
            rdy = 1 if mode == "high" else (1 if r_age >= t["r_late"] else 0) if mode == "late" else rs.below(2) if mode == "toggle" else (1 if rvalid_prev else 0)
            drive["axi_rready"] = rdy
        else:
            drive["axi_rready"] = rs.below(2)
        # ---- sample slave outputs BEFORE the edge (they are what the handshake at the edge uses) ---------
        d.b.cycle_inputs(dict(d.prev, **drive), d.prev)
        d.prev = dict(d.prev, **drive)
        pre = {n: d.get(n) for n in ("axi_awready", "axi_wready", "axi_bvalid", "axi_bresp", "axi_arready", "axi_rvalid", "axi_rdata", "axi_rresp")}
        # monitors on registered slave outputs
        if bvalid_prev == 1 and pre["axi_bvalid"] != 1 and not hs_b_prev:
            return "protocol", {"rule": "bvalid-withdrawn-before-bready", "clock": k}, st, d
        if rvalid_prev == 1 and pre["axi_rvalid"] != 1 and not hs_r_prev:
            return "protocol", {"rule": "rvalid-withdrawn-before-rready", "clock": k}, st, d
        if rvalid_prev == 1 and not hs_r_prev and pre["axi_rdata"] != rdata_prev:
            return "protocol", {"rule": "rdata-changed-while-rvalid", "clock": k, "before": rdata_prev, "after": pre["axi_rdata"]}, st, d
        # ---- handshakes at this edge ------------------------------------------------------------------
        hs_aw = drive["axi_awvalid"] == 1 and pre["axi_awready"] == 1
        hs_w = drive["axi_wvalid"] == 1 and pre["axi_wready"] == 1
        hs_b = pre["axi_bvalid"] == 1 and drive["axi_bready"] == 1
        hs_ar = drive["axi_arvalid"] == 1 and pre["axi_arready"] == 1
        hs_r = pre["axi_rvalid"] == 1 and drive["axi_rready"] == 1
        d.b.edge()
        d.clock_no += 1
        st["clocks"] += 1
        if hs_aw:
            t = wq[wi]
            st["aw_hs"] += 1
            aw_sent = True
            drive["axi_awvalid"] = 0
            accepted_aw.append(t)
            if pending_b:
                st["pipelined_writes"] += 1
        if hs_w:
            st["w_hs"] += 1
            w_sent = True
            drive["axi_wvalid"] = 0
            accepted_w.append(wq[wi])
        if hs_aw and hs_w:
            st["same_clock"] += 1
        elif hs_aw and not w_sent:
            st["aw_first"] += 1
        elif hs_w and not aw_sent:
            st["w_first"] += 1
        if aw_sent and w_sent:
            t = wq[wi]
            if t["strb"] != 15:
                st["partial_strobe"] += 1
            if (t["addr"] >> 2) not in model.words:
                st["unmapped"] += 1
            if decerr and decerr(t["addr"]):
                st["decerr_expected"] = st.get("decerr_expected", 0) + 1
            if t["addr"] & 3:
                st["unaligned"] = st.get("unaligned", 0) + 1
            wi += 1
            aw_sent = w_sent = False
            aw_wait = w_wait = None
            w_gap = t["gap"]
        while accepted_aw and accepted_w:
            ta = accepted_aw.pop(0)
            tw = accepted_w.pop(0)
            assert ta is tw
            pending_b.append(ta)
            b_age = 0
        model.now = k
        if hs_b:
            st["b_hs"] += 1
            if not pending_b:
                return "protocol", {"rule": "write-response-without-request", "clock": k}, st, d
            t = pending_b.pop(0)
            if pre["axi_bresp"] != (3 if decerr and decerr(t["addr"]) else 0):
                return "protocol", {"rule": "bresp-not-okay", "clock": k, "bresp": pre["axi_bresp"], "addr": t["addr"]}, st, d
            model.write(t["addr"], t["data"], t["strb"])
            busy_w[t["addr"]] -= 1
            if not busy_w[t["addr"]]:
                del busy_w[t["addr"]]
            b_age = 0
        elif pre["axi_bvalid"] == 1:
            st["b_waited"] += 1
            if not pending_b:
                return "protocol", {"rule": "bvalid-without-request", "clock": k}, st, d
        if hs_ar:
            t = rq[ri]
            st["ar_hs"] += 1
            drive["axi_arvalid"] = 0
            t = dict(t, _overlap=overlaps(busy_w, t["addr"]) or t.get("_overlap", False), _t_ar=k)
            pending_r.append(t)
            if (t["addr"] >> 2) not in model.words:
                st["unmapped"] += 1
            if decerr and decerr(t["addr"]):
                st["decerr_expected"] = st.get("decerr_expected", 0) + 1
            if t["addr"] & 3:
                st["unaligned"] = st.get("unaligned", 0) + 1
            ri += 1
            ar_wait = None
            r_gap = t["gap"]
            r_age = 0
        if hs_r:
            st["r_hs"] += 1
            if not pending_r:
                return "protocol", {"rule": "read-response-without-request", "clock": k}, st, d
            t = pending_r.pop(0)
            if pre["axi_rresp"] != (3 if decerr and decerr(t["addr"]) else 0):
                return "protocol", {"rule": "rresp-not-okay", "clock": k, "rresp": pre["axi_rresp"], "addr": t["addr"]}, st, d
            if overlaps(busy_w, t["addr"]) or t.get("_overlap"):
                st["reads_overlapping_a_write_not_value_checked"] = st.get("reads_overlapping_a_write_not_value_checked", 0) + 1
                model.read(t["addr"])  # ordering with the write in flight is unspecified: keep the counters, skip the value
            else:
                want, okset = model.read(t["addr"])
                wd_ = model.words.get(t["addr"] >> 2) if t["addr"] < m["words"] * 4 else None
                if wd_ is not None and wd_["kind"] == "input":
                    # the value the hardware signal had at some clock between the accepted address and the response
                    okset = {v << wd_["o"] for v in hw_hist[in_word[t["addr"] >> 2]][t["_t_ar"] : k + 1]}
                    want = sorted(okset)[0]
                    st["input_reads"] = st.get("input_reads", 0) + 1
                got = pre["axi_rdata"]
                if got not in okset:
                    return "register", {"rule": "read-returns-wrong-value", "clock": k, "addr": t["addr"], "expected": want, "got": got, "register": model.words.get(t["addr"] >> 2, {}).get("kind", "unmapped")}, st, d
            r_age = 0
        elif pre["axi_rvalid"] == 1:
            st["r_waited"] += 1
            if not pending_r:
                return "protocol", {"rule": "rvalid-without-request", "clock": k}, st, d
        # Output registers: the entity output shows the model's value whenever no write to the register is in flight
        for n, w, word, o in hw_out:
            if not overlaps(busy_w, word * 4):
                exp_o = (model.words[word]["val"] >> o) & ((1 << w) - 1)
                got_o = d.get(n)
                st["output_checks"] = st.get("output_checks", 0) + 1
                if got_o != exp_o:
                    return "register", {"rule": "output-register-port-differs-from-written-value", "clock": k, "port": n, "expected": exp_o, "got": got_o}, st, d
        # bounded response time while the master is ready
        if pending_b:
            b_age += 1
            if b_age > 24 and drive["axi_bready"] == 1 and pending_b[0]["b_ready"] == "high":
                return "protocol", {"rule": "no-write-response-within-bound", "clock": k, "addr": pending_b[0]["addr"]}, st, d
        if pending_r:
            r_age += 1
            if r_age > 24 and pending_r[0]["r_ready"] == "high":
                return "protocol", {"rule": "no-read-response-within-bound", "clock": k, "addr": pending_r[0]["addr"]}, st, d
        bvalid_prev, rvalid_prev, rdata_prev = pre["axi_bvalid"], pre["axi_rvalid"], pre["axi_rdata"]
        hs_b_prev, hs_r_prev = hs_b, hs_r
        pr = d.problems()
        if pr:
            return pr[0], dict(pr[1], clock=k), st, d
        d.half()
        k += 1
    if k >= limit:
        return "protocol", {"rule": "traffic-did-not-complete", "clock": k, "writes_left": len(wq) - wi, "reads_left": len(rq) - ri, "pending_b": len(pending_b), "pending_r": len(pending_r), "aw_without_w": len(accepted_aw), "w_without_aw": len(accepted_w)}, st, d
    if st["b_hs"] != len(wq) or st["r_hs"] != len(rq):
        return "protocol", {"rule": "response-count-differs-from-request-count", "writes": len(wq), "b": st["b_hs"], "reads": len(rq), "r": st["r_hs"]}, st, d
    return "ok", {}, st, d


def evaluate(seed, idx, tier):
    rs = rng.Stream(seed, "C20", "map", idx // 4)
    m = gen_interconnect(rs) if rng.Stream(seed, "C20", "topology", idx // 4).below(4) == 0 else gen_map(rs)
    src = render_src(m)
    key = repr(m)
    try:
        # std.axi keeps the latched address in the alias variable of a locally constructed Signal(maybe_uninitialized=True)
        # across states when AW arrives before W; plain VHDL semantics (variables persist) are used here, the C08 side of
        # it (an intermediate consumed in a later activation) is probed and recorded in the C08 check
        design = dutm.compile_design(src, cache_key=key, alias_persistent=True)
    except render.Rejected as e:
        return "rejected", None, {"reason": f"{e.exc_type}: {e.message[:120]}"}, m, None
    trs = rng.Stream(seed, "C20", "traffic", idx)
    ops = gen_traffic(trs, m, trs.range(20, 50 if tier == "quick" else 120))
    pipelined = trs.below(2) == 1
    out = simulate(m, design, ops, seed, idx, pipelined, decerr=decerr_of(m))
    st, det, stats, d = out
    stats = dict(stats, **{k: v for k, v in d.stats().items() if k in ("deltas", "reorders")}, pipelined=int(pipelined), transactions=len(ops))
    return "accepted", (None if st == "ok" else st + ":" + str(det.get("rule", ""))), det, m, stats


def run_one(seed, idx, tier):
    out = dutm.guarded(lambda: evaluate(seed, idx, tier))
    if len(out) == 2:
        if out[0] == "legality":
            return {"idx": idx, "status": "skipped", "reason": "illegal-vhdl:" + str(out[1].get("rule")) + ":" + str(out[1].get("msg"))[:100], "shape": str(idx)}
        return {"idx": idx, "status": "violation", "vclass": out[0], "detail": out[1], "payload": {"seed": seed, "idx": idx, "tier": tier}, "shape": str(idx)}
    outcome, vclass, det, m, stats = out
    res = {"idx": idx, "shape": hashlib.sha256(repr(m).encode()).hexdigest()[:12], "outcome": outcome, "kinds": sorted({e["kind"] for e in m["entries"]}), "words": m["words"], "topology": f"interconnect-{len(m['slaves'])}-slaves" if "slaves" in m else "direct"}
    if stats:
        res["stats"] = stats
    if outcome == "rejected":
        res.update(status="ok", reason=det["reason"])
    elif vclass:
        res.update(status="violation", vclass=vclass, detail=dict(det, map=m), payload={"seed": seed, "idx": idx, "tier": tier, "map": m})
    else:
        res["status"] = "ok"
    return res


def replay(payload):
    out = dutm.guarded(lambda: evaluate(payload["seed"], payload["idx"], payload["tier"]))
    if len(out) == 2:
        return out
    return (out[1] or out[0]), out[2]


def plan(tier):
    return 240 if tier == "quick" else 20000


def finding_key(r):
    return None


ASSUMPTIONS = [
    "VSIM stands in for a VHDL simulator; the master BFM obeys the protocol itself (valid held until ready, payload stable)",
    "register model: a write takes effect with its B handshake; a read that is offered or outstanding at any time between the moment the master starts to present a write to the same "
    "address and that write's B handshake is not value-checked (AXI leaves their order open; a Memory in READBACK mode commits two clocks after it raised BVALID); "
    "unmapped / hole accesses read 0 with OKAY and change nothing; bits of a Register that belong to no field read 0",
    "restricted register-map grammar (MemWord, MemUWord, Register with MemField/MemUField, counter register with PushOnNotify, nested RegFile, Array of MemWord, "
    "Input (read-only view of an entity input at a bit offset) and Output (write-only, drives an entity output) registers, Memory of 2-8 words with the four mask modes / inline or separate access processes / initial contents, AddrRange with an absolute or relative read hook; objects start at any word offset); "
    "a Memory in mask mode IGNORE writes all four bytes whatever the strobes say (documented behaviour of that mode)",
    "bounded response: 24 clocks while the master holds ready high",
    "a quarter of the maps sit behind std.axi.axi4_light.interconnect.Interconnect (2-3 slaves in size-aligned power-of-two windows, gaps between them): "
    "accesses inside a window behave as without the interconnect (OKAY), accesses outside every window are answered once with DECERR and change nothing",
]


def evidence(results, tier):
    acc = [r for r in results if r.get("outcome") == "accepted" and r["status"] == "ok"]
    agg = {}
    for r in results:
        dutm.add_stats(agg, r.get("stats") or {})
    kinds = {}
    for r in acc:
        for k in r["kinds"]:
            kinds[k] = kinds.get(k, 0) + 1
    rej = {}
    for r in results:
        if r.get("outcome") == "rejected" or r["status"] == "skipped":
            rej[r["reason"][:100]] = rej.get(r["reason"][:100], 0) + 1
    nontriv = {(r["shape"], r["stats"]["pipelined"]) for r in acc if r["stats"]["b_hs"] >= 3 and r["stats"]["r_hs"] >= 3}
    sample = None
    for r in acc:
        if len(r["kinds"]) >= 2 and r["stats"]["pipelined"]:
            sample = {"run": r["idx"], "register_kinds": r["kinds"], "map_words": r["words"], "transactions": r["stats"]["transactions"], "master_offers_next_write_during_b_phase": True, "handshakes": {k: r["stats"][k] for k in ("aw_hs", "w_hs", "b_hs", "ar_hs", "r_hs")}, "aw_before_w / w_before_aw / same_clock": [r["stats"]["aw_first"], r["stats"]["w_first"], r["stats"]["same_clock"]]}
            break
    if sample is None and acc:
        sample = {"run": acc[0]["idx"], "register_kinds": acc[0]["kinds"], "map_words": acc[0]["words"]}
    return {
        "evaluations": len(results),
        "distinct_nontrivial": len(nontriv),
        "rule": "one evaluation = one seeded register map (4 traffic schedules per map) compiled by the real compiler and driven by a seeded AXI4-Lite master for 20-50 (thorough 120) transactions with per-channel delays, ready policies and pipelining, "
        "protocol monitors and register model checked every clock; distinct = distinct (map, pipelined); non-trivial = >= 3 write and >= 3 read responses",
        "samples": [sample] if sample else [],
        "accepted_runs": len(acc),
        "not_explored": rej,
        "register_kinds": kinds,
        "topology": {t: len([r for r in acc if r["topology"] == t]) for t in sorted({r["topology"] for r in acc})},
        "accesses_outside_every_slave_window(DECERR expected)": agg.get("decerr_expected", 0),
        "unaligned_accesses(Memory with allow_unaligned)": agg.get("unaligned", 0),
        "reads_of_Input_registers(checked against the signal history)": agg.get("input_reads", 0),
        "Output_register_port_checks": agg.get("output_checks", 0),
        "simulated_clocks": agg.get("clocks", 0),
        "handshakes": {k: agg.get(k, 0) for k in ("aw_hs", "w_hs", "b_hs", "ar_hs", "r_hs")},
        "schedule_reach": {"aw_before_w": agg.get("aw_first", 0), "w_before_aw": agg.get("w_first", 0), "aw_and_w_same_clock": agg.get("same_clock", 0), "next_write_accepted_while_b_outstanding": agg.get("pipelined_writes", 0), "clocks_bvalid_waited_for_bready": agg.get("b_waited", 0), "clocks_rvalid_waited_for_rready": agg.get("r_waited", 0), "unmapped_or_hole_accesses": agg.get("unmapped", 0), "partial_strobe_writes": agg.get("partial_strobe", 0)},
        "faults_fired": {"process_order_permutations": agg.get("reorders", 0), "master_ready_withheld_clocks": agg.get("b_waited", 0) + agg.get("r_waited", 0)},
        "real_components": ["cohdl compiler", "std.axi.axi4_light + std.reg as shipped", "emitted VHDL"],
        "model_components": ["VSIM", "AXI4-Lite master BFM", "protocol monitors", "register model"],
    }


def acceptance(cov, tier):
    probs = []
    for k, v in cov["schedule_reach"].items():
        # (a correct slave keeps AWREADY/WREADY low while a response is outstanding, so that probe may stay at zero:
        # the master OFFERS the next AW/W during the B phase in every pipelined run)
        if not v and k != "next_write_accepted_while_b_outstanding":
            probs.append(f"schedule reach probe {k} is zero")
    if cov["accepted_runs"] < cov["evaluations"] // 2:
        probs.append("fewer than half of the runs were accepted")
    return probs
