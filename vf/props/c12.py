"""C12 — instantiating an entity is equivalent to inlining it.

A seeded instantiation tree (depth <= 3, fan-out <= 3, shared templates) is rendered TWICE from the same tree: as a
hierarchy of entities whose ports are connected with whole signals, parent ports, slices and typed views (also an
instance output connected to a slice of a parent signal that has a default, instances created by a helper called
inside a concurrent context, a derived entity class that inherits its ports), and flat, with every node's logic
placed inline in the top architecture.  Both designs are compiled by the real compiler and co-simulated in VSIM under
the same stimulus with INDEPENDENT process-order streams (the hierarchy changes the delta depth, which must not
matter); all outputs must agree after every clock.  Structural checks on the hierarchical text: the emitted interface
of every entity equals its declared ports (names, directions, types, order), every template is emitted exactly once,
sub-entities precede their users (elaborator rule).
"""
from __future__ import annotations

import hashlib
import re

from vf.core import rng
from vf.gen import render
from vf.tb import dut as dutm

PROP = "C12"
LEVEL = "exploration"
KINDS = ["comb", "reg", "acc", "slice", "instctx", "inout"]

HEAD = """from __future__ import annotations
import cohdl
from cohdl import Bit, BitVector, Unsigned, Signed, Port, Signal, Variable, Null, Full, true, false
from cohdl import std

class Inc(cohdl.Entity):
    x = Port.input(Unsigned[4])
    y = Port.output(Unsigned[4])

    def architecture(self):
        @std.concurrent
        def logic():
            self.y <<= self.x + 1

class RdIo(cohdl.Entity):
    io = Port.inout(Unsigned[4])
    y = Port.output(Unsigned[4])

    def architecture(self):
        @std.concurrent
        def logic():
            self.y <<= self.io + 1

def inc_inst(v):
    out = Signal[Unsigned[4]]()
    Inc(x=v, y=out)
    return out

class Base(cohdl.Entity):
    clk = Port.input(Bit)
    x = Port.input(Unsigned[4])
    b = Port.input(BitVector[2])
    en = Port.input(Bit)
    y = Port.output(Unsigned[4])
    yb = Port.output(BitVector[2])
    f = Port.output(Bit)

"""

HEAD += """class BaseIn(cohdl.Entity):
    clk = Port.input(Bit)
    x = Port.input(Unsigned[4])
    b = Port.input(BitVector[2])
    en = Port.input(Bit)

"""

OUT_DECL = "    y = Port.output(Unsigned[4])\n    yb = Port.output(BitVector[2])\n    f = Port.output(Bit)\n"

IFACE = [("clk", "in", "std_logic"), ("x", "in", "unsigned(3 downto 0)"), ("b", "in", "std_logic_vector(1 downto 0)"), ("en", "in", "std_logic"), ("y", "out", "unsigned(3 downto 0)"), ("yb", "out", "std_logic_vector(1 downto 0)"), ("f", "out", "std_logic")]


def gen_tree(rs, depth=0):
    kind = rs.choice(KINDS)
    node = {"kind": kind, "k": rs.range(1, 14), "derived": rs.choice([0, 0, 0, 0, 1, 2, 3, 3]), "mon": rs.below(4) == 0, "onexit": rs.below(5) == 0, "lazy": rs.below(6) == 0, "children": []}
    if depth < 2:
        nch = rs.weighted([(3, 0), (4, 1), (3, 2), (1, 3)]) if depth else rs.range(1, 3)
        for j in range(nch):
            if node["children"] and rs.below(3) == 0:
                ch = dict(rs.choice(node["children"]))  # the same template instantiated again
                ch = {**ch, "wire": None}
            else:
                ch = gen_tree(rs, depth + 1)
            ch = dict(ch)
            ch["wire"] = {"b": 7 if rs.below(40) == 0 else rs.below(7), "e": rs.below(2), "yb_slice": rs.below(2), "kw_order": rs.sample(list(range(8)), 8) if rs.below(2) else None}
            node["children"].append(ch)
    return node


def cross_depth(tree, rs):
    """instantiate a template that is used deeper in the hierarchy ALSO directly in the top entity, BEFORE the child whose
    subtree uses it (the emitted library must still define every entity before its first user)"""
    cands = []
    for ci, ch in enumerate(tree["children"]):
        stack = list(ch["children"])
        while stack:
            n = stack.pop()
            cands.append((ci, n))
            stack += n["children"]
    if not cands or len(tree["children"]) >= 4:
        return tree
    import copy

    ci, n = rs.choice(cands)
    new = copy.deepcopy(n)
    new["wire"] = {"b": rs.below(7), "e": rs.below(2), "yb_slice": rs.below(2), "kw_order": rs.sample(list(range(8)), 8) if rs.below(2) else None}
    pos = ci if rs.below(3) else rs.range(0, len(tree["children"]))
    tree["children"].insert(pos, new)
    tree["cross_depth"] = True
    return tree


def template_key(n):
    return repr((n["kind"], n["k"], n["derived"], n.get("mon"), n.get("onexit"), n.get("lazy"), [template_key(c) for c in n["children"]], [c["wire"] for c in n["children"]]))


def body(node, X, B, E, Y, YB, F, p, hier, classes, L, ind="        "):
    """emit the architecture-level statements of one node.  X,B,E: expressions for the inputs; Y,YB,F: targets"""
    k, kk = node["kind"], node["k"]
    a = L.append
    a(f"{ind}{p}ly = Signal[Unsigned[4]](0)")
    a(f"{ind}{p}lf = Signal[Bit](False)")
    a(f"{ind}{p}lb = Signal[BitVector[4]](Null)")
    clk = "std.Clock(self.clk)"
    if k == "comb":
        a(f"{ind}@std.concurrent")
        a(f"{ind}def {p}logic():")
        a(f"{ind}    {p}ly.next = {X} + {kk}")
        a(f"{ind}    {p}lf.next = {E} ^ {X}[0]")
    elif k == "reg":
        a(f"{ind}@std.sequential({clk})")
        a(f"{ind}def {p}logic():")
        a(f"{ind}    if {E}:")
        a(f"{ind}        {p}ly.next = {X} + {kk}")
        a(f"{ind}    {p}lf.next = {E}")
    elif k == "acc":
        a(f"{ind}{p}a = Variable[Unsigned[4]]({kk})")
        a(f"{ind}@std.sequential({clk})")
        a(f"{ind}def {p}logic():")
        a(f"{ind}    if {E}:")
        a(f"{ind}        {p}a.value = {p}a + {X}")
        a(f"{ind}    {p}ly.next = {p}a")
        a(f"{ind}    {p}lf.next = {p}a[3]")
    elif k == "slice":
        a(f"{ind}@std.concurrent")
        a(f"{ind}def {p}logic():")
        a(f"{ind}    {p}ly.next = ({B} @ {X}[1:0]).unsigned")
        a(f"{ind}    {p}lf.next = {'~' if kk & 1 else ''}{B}[1]")
    elif k == "inout":
        # a sub-entity that READS an inout port; the net is driven by this node only (the reader must see the net, not a copy of
        # what it drives itself)
        a(f"{ind}{p}li = Signal[Unsigned[4]](0)")
        a(f"{ind}@std.concurrent")
        a(f"{ind}def {p}logic():")
        a(f"{ind}    {p}li.next = {X} + {kk}")
        a(f"{ind}    {p}lf.next = {E}")
        if hier:
            a(f"{ind}RdIo(io={p}li, y={p}ly)")
        else:
            a(f"{ind}@std.concurrent")
            a(f"{ind}def {p}logic2():")
            a(f"{ind}    {p}ly.next = {p}li + 1")
    else:  # instctx: an entity instantiated by a helper that is called inside a concurrent context
        a(f"{ind}@std.concurrent")
        a(f"{ind}def {p}logic():")
        if hier and kk % 3 == 0:
            # the instance is created directly in the context, with an EXPRESSION as the actual of its input
            # (the whole result, a slice of a wider result or a typed view of the result)
            act = {3: f"({X}.resize(5) + {kk})[3:0]", 9: f"({X} + {kk}).bitvector.unsigned"}.get(kk, f"({X} + {kk})")
            a(f"{ind}    Inc(x={act}, y={p}ly)")
        elif hier:
            a(f"{ind}    {p}ly.next = inc_inst({X}{' + ' + str(kk) if kk % 2 else ''})")
        else:
            a(f"{ind}    {p}ly.next = ({X}{' + ' + str(kk) if (kk % 2 or kk % 3 == 0) else ''}) + 1")
        a(f"{ind}    {p}lf.next = {E}")
    fs = [f"{p}lf"]
    prev_y = f"{p}ly"
    n = len(node["children"])
    for j, ch in enumerate(node["children"]):
        w = ch["wire"]
        last = j == n - 1
        cx = prev_y
        # b actual: slices of the node's BitVector copy, the parent's own b input, or (rarely: w["b"] == 7) a typed view
        # of an Unsigned signal -- the latter is emitted without a type conversion in the port map (illegal VHDL, a C06
        # finding), so such trees end as 'illegal VHDL, not explored'
        cb = [f"{p}lb[1:0]", f"{p}lb[3:2]", B, f"{p}lb[2:1]", f"{p}lb[1:0]", B, f"{p}lb[3:2]", f"{prev_y}.bitvector[1:0]"][w["b"]]
        ce = [f"{p}lf", E][w["e"]]
        cy = Y if last else f"{p}c{j}y"
        if not last:
            a(f"{ind}{p}c{j}y = Signal[Unsigned[4]]()")
        # the 2 bit output goes to a slice of a wider signal that has a default (bits outside the slice keep it)
        a(f"{ind}{p}w{j} = Signal[BitVector[4]](\"1010\")")
        cyb = f"{p}w{j}[1:0]" if w["yb_slice"] == 0 else f"{p}w{j}[3:2]"
        a(f"{ind}{p}c{j}f = Signal[Bit]()")
        cf = f"{p}c{j}f"
        if hier:
            cname = classes(ch)
            args = [f"clk=self.clk", f"x={cx}", f"b={cb}", f"en={ce}", f"y={cy}", f"yb={cyb}", f"f={cf}"] + (["g=Signal[Bit]()"] if ch["derived"] == 3 else [])
            # the keyword arguments come in a seeded order (the association is by name, not by position)
            order = w.get("kw_order")
            if order:
                args = [args[i] for i in order if i < len(args)] + [x for i, x in enumerate(args) if i not in order]
            a(f"{ind}{cname}({', '.join(args)})")
        else:
            body(ch, cx, cb, ce, cy, cyb, cf, f"{p}c{j}_", hier, classes, L, ind)
        fs += [cf, f"{p}w{j}[3]", f"{p}w{j}[0]"]
        prev_y = cy
    if hier and node.get("mon") and n == 0:
        # the node's OWN output port (driven by its outs context, not read by any context) is the actual of a sub-entity's input
        a(f"{ind}Inc(x={Y}, y=Signal[Unsigned[4]]())")
    if node.get("lazy") and hier:
        # an output port that is added to the entity lazily, from INSIDE the context that drives it (std.add_entity_port
        # through a compile-time helper): it belongs to the emitted interface like the declared ports
        a(f"{ind}{p}pins = {{}}")
        a(f"{ind}@cohdl.pyeval")
        a(f"{ind}def {p}lazy_pin():")
        a(f"{ind}    if 'dbg' not in {p}pins:")
        a(f"{ind}        {p}pins['dbg'] = std.add_entity_port(self, Port.output(Bit, name='dbg'))")
        a(f"{ind}    return {p}pins['dbg']")
    if node.get("onexit") and hier:
        # (hierarchical rendering only: inline, the same context is simply declared in the top architecture)
        # the context that drives the outputs is created by a handler registered with cohdl.on_block_exit: it belongs to
        # the entity whose architecture registered it
        a(f"{ind}def {p}on_exit():")
        ind = ind + "    "
    a(f"{ind}@std.concurrent")
    a(f"{ind}def {p}outs():")
    def asg(t, e):
        # plain names must not be rebound inside the context function
        return f"{t} <<= {e}" if (t.startswith("self.") or "[" in t) else f"{t}.next = {e}"

    if node.get("lazy") and hier:
        a(f"{ind}    {p}lazy_pin().next = {E}")
    a(f"{ind}    {p}lb.next = {p}ly.bitvector")
    if n == 0:
        a(f"{ind}    " + asg(Y, f"{p}ly"))
        a(f"{ind}    " + asg(YB, f"{p}lb[3:2]"))
    else:
        a(f"{ind}    " + asg(YB, f"{p}w{n - 1}[2:1]"))
    a(f"{ind}    " + asg(F, " ^ ".join(fs)))
    if node.get("onexit") and hier:
        a(f"{ind[:-4]}cohdl.on_block_exit({p}on_exit)")


def render_hier(tree):
    names = {}
    order = []

    def classes(n):
        key = template_key(n)
        if key not in names:
            names[key] = f"N{len(names)}"
            order.append((names[key], n))
            # children first (definition order in the module does not matter for Python, names are resolved at run time)
        return names[key]

    # collect all templates depth first
    def walk(n):
        for c in n["children"]:
            walk(c)
            classes(c)

    walk(tree)
    out = [HEAD]
    for cname, n in order:
        if n["derived"] == 1:
            out.append(f"class {cname}(Base):\n    def architecture(self):\n")
        elif n["derived"] == 2:
            # derived from a base that declares the inputs only; the outputs are added here (sibling classes of the
            # same base each add their own)
            out.append(f"class {cname}(BaseIn):\n{OUT_DECL}\n    def architecture(self):\n")
        elif n["derived"] == 3:
            # adds one more output to the inherited ports; classes derived from the same base must not get it
            out.append(f"class {cname}(Base):\n    g = Port.output(Bit)\n\n    def architecture(self):\n        @std.concurrent\n        def drive_g():\n            self.g <<= self.en\n")
        else:
            out.append(f"class {cname}(cohdl.Entity):\n    clk = Port.input(Bit)\n    x = Port.input(Unsigned[4])\n    b = Port.input(BitVector[2])\n    en = Port.input(Bit)\n    y = Port.output(Unsigned[4])\n    yb = Port.output(BitVector[2])\n    f = Port.output(Bit)\n\n    def architecture(self):\n")
        L = []
        body(n, "self.x", "self.b", "self.en", "self.y", "self.yb", "self.f", "", True, classes, L)
        out.append("\n".join(L) + "\n\n")
    out.append("class E(cohdl.Entity):\n    clk = Port.input(Bit)\n    x = Port.input(Unsigned[4])\n    b = Port.input(BitVector[2])\n    en = Port.input(Bit)\n    y = Port.output(Unsigned[4])\n    yb = Port.output(BitVector[2])\n    f = Port.output(Bit)\n\n    def architecture(self):\n")
    L = []
    body(tree, "self.x", "self.b", "self.en", "self.y", "self.yb", "self.f", "", True, classes, L)
    out.append("\n".join(L) + "\n")
    return "".join(out), [(c, n["derived"], bool(n.get("lazy"))) for c, n in order] + [("E", 0, bool(tree.get("lazy")))]


def render_flat(tree):
    out = [HEAD, "class E(cohdl.Entity):\n    clk = Port.input(Bit)\n    x = Port.input(Unsigned[4])\n    b = Port.input(BitVector[2])\n    en = Port.input(Bit)\n    y = Port.output(Unsigned[4])\n    yb = Port.output(BitVector[2])\n    f = Port.output(Bit)\n\n    def architecture(self):\n"]
    L = []
    body(tree, "self.x", "self.b", "self.en", "self.y", "self.yb", "self.f", "", False, None, L)
    out.append("\n".join(L) + "\n")
    return "".join(out)


def count_nodes(n):
    return 1 + sum(count_nodes(c) for c in n["children"])


def depth_of(n):
    return 1 + max([depth_of(c) for c in n["children"]] or [0])


def structural(design, text, classes):
    for cname, derived, lazy in classes:
        iface = IFACE + ([("g", "out", "std_logic")] if derived == 3 else []) + ([("dbg", "out", "std_logic")] if lazy else [])
        cnt = len(re.findall(rf"(?im)^\s*entity\s+{cname}\s+is\b", text))
        if cnt != 1:
            return {"rule": "template-emitted-once", "entity": cname, "times": cnt}
        got = design.interface.get(cname.lower())
        if got is None:
            return {"rule": "interface-missing", "entity": cname}
        g = [(n.lower(), m, re.sub(r"\s+", " ", t.lower())) for n, m, t in got]
        if g != iface:
            return {"rule": "interface-differs-from-declared-ports", "entity": cname, "emitted": g, "declared": iface}
    return None


def gen_stimulus(rs, n):
    out = []
    cur = {"x": 0, "b": 0, "en": 0}
    for _ in range(n):
        if rs.below(4):
            cur = {"x": rs.below(16), "b": rs.below(4), "en": rs.below(2) if rs.below(3) else 1}
        out.append(dict(cur))
    return out


def cosim(dh, df, stim, seed_h, seed_f):
    H = dutm.Dut(dh, seed_h, "hier")
    Fl = dutm.Dut(df, seed_f, "flat")
    first = dict(stim[0])
    H.start(first)
    Fl.start(first)
    for k, st in enumerate(stim):
        H.clock(st)
        Fl.clock(st)
        for phase in (0, 1):
            gh = {n: H.raw(n) for n in ("y", "yb", "f")}
            gf = {n: Fl.raw(n) for n in ("y", "yb", "f")}
            if gh != gf:
                return "hierarchy-differs-from-inline", {"clock": k, "phase": "edge" if phase == 0 else "inactive-edge", "hierarchical": gh, "inline": gf, "inputs": st}, H, Fl
            if phase == 0:
                H.half()
                Fl.half()
        for d, which in ((H, "hierarchical"), (Fl, "inline")):
            pr = d.problems()
            if pr:
                return pr[0] + ":" + which, dict(pr[1], clock=k), H, Fl
    return "ok", {}, H, Fl


def evaluate(tree, seed, idx, tier):
    src_h, classes = render_hier(tree)
    src_f = render_flat(tree)
    try:
        dh = dutm.compile_design(src_h)
    except render.Rejected as e:
        return "rejected", None, {"which": "hierarchical", "reason": f"{e.exc_type}: {e.message[:120]}"}, None
    try:
        df = dutm.compile_design(src_f)
    except render.Rejected as e:
        return "rejected", None, {"which": "inline", "reason": f"{e.exc_type}: {e.message[:120]}"}, None
    sd = structural(dh, dh.vhdl_text, classes)
    if sd:
        return "accepted", "structure:" + sd["rule"], sd, None
    rs = rng.Stream(seed, "C12", "stim", idx)
    stim = gen_stimulus(rs, rs.range(30, 70 if tier == "quick" else 200))
    st, det, H, Fl = cosim(dh, df, stim, rng.derive(seed, "C12", "oh", idx), rng.derive(seed, "C12", "of", idx))
    stats = {"instances": len(dh.instances), "entities": len(classes), "deltas_hier": H.sim.delta_count, "deltas_flat": Fl.sim.delta_count, "clocks": len(stim), "reorders": H.sim.reorders + Fl.sim.reorders}
    return "accepted", (None if st == "ok" else st), det, stats


def run_one(seed, idx, tier):
    rs = rng.Stream(seed, "C12", "tree", idx)
    tree = gen_tree(rs)
    if rs.below(3) == 0:
        tree = cross_depth(tree, rs)
    res = {"idx": idx, "shape": hashlib.sha256(template_key(tree).encode()).hexdigest()[:14], "nodes": count_nodes(tree), "depth": depth_of(tree)}
    try:
        out = dutm.guarded(lambda: evaluate(tree, seed, idx, tier))
    except Exception:
        raise
    if len(out) == 2:
        if out[0] == "legality" and out[1].get("rule") == "entity-order":
            # part of THIS statement: sub-entities are emitted before the entities that use them
            res.update(status="violation", vclass="entity-used-before-it-is-emitted", detail=out[1], payload={"tree": tree, "seed": seed, "idx": idx, "tier": tier})
            return res
        if out[0] == "legality" and "port association" in str(out[1].get("msg")) and not uses_typed_view_actual(tree):
            # part of THIS statement: every formal is wired to exactly the actual given for it (every actual generated here
            # has the formal's type, except the typed-view actuals of the known C06/C12 finding)
            res.update(status="violation", vclass="formal-associated-with-an-actual-of-another-type", detail=out[1], payload={"tree": tree, "seed": seed, "idx": idx, "tier": tier})
            return res
        if out[0] == "legality":
            res.update(status="skipped", reason="illegal-vhdl:" + str(out[1].get("rule")))
            return res
        res.update(status="violation", vclass=out[0], detail=out[1], payload={"tree": tree, "seed": seed, "idx": idx, "tier": tier})
        return res
    outcome, vclass, det, stats = out
    res["outcome"] = outcome
    if stats:
        res["stats"] = stats
    if outcome == "rejected":
        res.update(status="ok", reason=det["reason"], which=det["which"])
    elif vclass:
        res.update(status="violation", vclass=vclass, detail=det, payload={"tree": tree, "seed": seed, "idx": idx, "tier": tier, "hierarchical_source": render_hier(tree)[0], "inline_source": render_flat(tree)})
    else:
        res["status"] = "ok"
    return res


def uses_typed_view_actual(n):
    return any((c.get("wire") or {}).get("b") == 7 or uses_typed_view_actual(c) for c in n["children"])


def replay(payload):
    out = dutm.guarded(lambda: evaluate(payload["tree"], payload["seed"], payload["idx"], payload["tier"]))
    if len(out) == 2:
        if out[0] == "legality" and out[1].get("rule") == "entity-order":
            return "entity-used-before-it-is-emitted", out[1]
        if out[0] == "legality" and "port association" in str(out[1].get("msg")) and not uses_typed_view_actual(payload["tree"]):
            return "formal-associated-with-an-actual-of-another-type", out[1]
        return out
    return (out[1] or out[0]), out[2]


def plan(tier):
    return 1200 if tier == "quick" else 40000


def finding_key(r):
    return None


ASSUMPTIONS = [
    "VSIM stands in for a VHDL simulator; both replicas get the same stimulus and independent process-order streams",
    "'inline' = the node's signals, variables and contexts declared directly in the top architecture from the same tree",
    "outputs are compared as raw std_logic strings (an undriven 'U' in one replica must be 'U' in the other)",
    "entity classes: plain, derived from a base declaring all ports, derived from a base declaring the inputs only (outputs added by each sibling), derived with one more output; "
    "the emitted interface of every class must be exactly its own declared + inherited ports",
]


def evidence(results, tier):
    acc = [r for r in results if r.get("outcome") == "accepted" and r["status"] == "ok"]
    agg = {}
    for r in results:
        dutm.add_stats(agg, r.get("stats") or {})
    nontriv = {r["shape"] for r in acc if r["stats"]["instances"] >= 2}
    rej = {}
    for r in results:
        if r.get("outcome") == "rejected":
            k = f"{r['which']}: {r['reason'][:80]}"
            rej[k] = rej.get(k, 0) + 1
    sample = None
    for r in acc:
        if r["stats"]["instances"] >= 3 and r["depth"] >= 3:
            sample = {"run": r["idx"], "nodes": r["nodes"], "depth": r["depth"], "instances_in_hierarchical_design": r["stats"]["instances"], "distinct_templates": r["stats"]["entities"]}
            break
    return {
        "evaluations": len(results),
        "distinct_nontrivial": len(nontriv),
        "rule": "one evaluation = one seeded instantiation tree rendered as a hierarchy of entities and inline, both compiled by the real compiler and co-simulated under the same stimulus with independent process orders, "
        "all outputs compared after every clock, plus structural checks of the hierarchical text; distinct = distinct trees (template structure hash); non-trivial = accepted with >= 2 instances",
        "samples": [sample] if sample else [],
        "accepted_pairs": len(acc),
        "rejected": rej,
        "instances_elaborated": agg.get("instances", 0),
        "templates": agg.get("entities", 0),
        "simulated_clocks_per_replica": agg.get("clocks", 0),
        "delta_cycles_hierarchical": agg.get("deltas_hier", 0),
        "delta_cycles_inline": agg.get("deltas_flat", 0),
        "faults_fired": {"process_order_permutations": agg.get("reorders", 0), "independent_order_streams_per_replica": True},
        "real_components": ["cohdl compiler (entity templates, port maps, instantiation inside contexts, inheritance of ports)", "emitted VHDL of both replicas"],
        "model_components": ["VSIM", "tree generator with two renderers", "stimulus"],
    }


def acceptance(cov, tier):
    if cov["accepted_pairs"] < cov["evaluations"] // 3:
        return [f"only {cov['accepted_pairs']} of {cov['evaluations']} generated pairs were accepted"]
    return []
