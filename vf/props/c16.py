"""C16 — std timing utilities are exact to the clock.

Sub-workloads (wrapper entity + per-step reference model each):
  wait     std.wait_for(n) / Waiter.wait_for(n): constant, run-time (sampled when reached, changed afterwards),
           Duration against the clock period, n = 0 with allow_zero; marker before / after the wait
  delay    std.DelayLine / std.delayed(x, n) with and without initial values
  clkdiv   std.ClockDivider (constant and run-time period, default_state, tick_at_start, require_enable, enable/disable)
  toggle   std.ToggleSignal (constant and run-time durations, first_state, default_state, require_enable, enable/disable)
  counter  std.continuous_counter (constant and run-time limit)
  debounce std.debounce (period 1..9, initial)
Schedule / fault space: the clock at which a wait is reached, run-time values changing at seeded instants,
enable/disable instants, bouncing inputs, reset mid-wait, stall through the step condition (a stalled clock
is not a step), process order, input offsets.  Outputs are compared with the model after EVERY clock.
"""
from __future__ import annotations

import hashlib

from vf.core import rng
from vf.gen import render
from vf.tb import dut as dutm

PROP = "C16"
LEVEL = "exploration"


def configs():
    out = []
    # reset: none, synchronous, asynchronous (the step condition gates the clocked part of all three wrappers alike)
    for reset in (False, True, "async"):
        # (std.wait_for(0, allow_zero=True) with a CONSTANT 0 is rejected by the compiler on this tree -- an
        # unexpected rejection, not a timing matter -- so the zero case is exercised with run-time durations)
        for form, ns in (("const", [1, 2, 3, 4, 5, 8, 13]), ("waiter_const", [1, 2, 5, 9]), ("duration", [1, 2, 3, 7])):
            for n in ns:
                out.append({"w": "wait", "form": form, "n": n, "reset": reset})
        for form in ("runtime", "waiter_runtime", "runtime_zero", "waiter_runtime_zero"):
            out.append({"w": "wait", "form": form, "n": None, "reset": reset})
        for n in range(0, 6):
            for form in ("line", "fn"):
                for initial in (False, True):
                    if n == 0 and form == "line":
                        continue
                    out.append({"w": "delay", "n": n, "form": form, "initial": initial, "reset": reset})
        for p in (2, 3, 5, 8, "rt"):
            for ds in (False, True):
                for ts in (False, True) if p != "rt" else (False,):
                    for re_ in (False, True):
                        out.append({"w": "clkdiv", "p": p, "ds": ds, "ts": ts, "re": re_, "reset": reset})
        for fs_ in (False, True):
            for ds in (False, True):
                for re_ in (False, True):
                    for a, b in ((1, 1), (2, 3), (3, 1), (4, 4), ("rt", "rt"), (2, "rt"), ("rt", None), (3, None)):
                        out.append({"w": "toggle", "a": a, "b": b, "fs": fs_, "ds": ds, "re": re_, "reset": reset})
                    # both phase lengths given as Durations (converted with the context's clock period: 10 ns)
                    for a, b in ((2, 5), (3, 1), (1, 4)):
                        out.append({"w": "toggle", "a": a, "b": b, "fs": fs_, "ds": ds, "re": re_, "reset": reset, "dur": True})
        for lim in (1, 3, 6, "rt"):
            out.append({"w": "counter", "lim": lim, "reset": reset})
        for p in (1, 2, 3, 4, 7, 9):
            for ini in (False, True):
                out.append({"w": "debounce", "p": p, "ini": ini, "reset": reset})
    return out


CONFIGS = configs()

HEAD = [
    "from __future__ import annotations",
    "import cohdl",
    "from cohdl import Bit, BitVector, Unsigned, Signed, Port, Signal, Variable, Null, Full, true, false",
    "from cohdl import std",
    "",
    "class E(cohdl.Entity):",
    "    clk = Port.input(Bit)",
    "    rst = Port.input(Bit)",
    "    en = Port.input(Bit)",
]


def ctx_line(cfg, freq=False):
    clk = "std.Clock(self.clk, frequency=std.MHz(100))" if freq else "std.Clock(self.clk)"
    rst = ", std.Reset(self.rst, is_async=True)" if cfg["reset"] == "async" else ", std.Reset(self.rst)" if cfg["reset"] else ""
    return f"        ctx = std.SequentialContext({clk}{rst}, step_cond=lambda: self.en)"


def render_src(cfg):
    w = cfg["w"]
    L = list(HEAD)
    if w == "wait":
        L += ["    go = Port.input(Bit)", "    n = Port.input(Unsigned[4])", "    m = Port.output(Unsigned[4], default=0)", "", "    def architecture(self):", ctx_line(cfg, True)]
        f = cfg["form"]
        if f.startswith("waiter"):
            L.append("        waiter = std.Waiter(15)")
        call = {
            "const": f"std.wait_for({cfg['n']})",
            "const_zero": "std.wait_for(0, allow_zero=True)",
            "duration": f"std.wait_for(std.ns({10 * (cfg['n'] or 0)}))",
            "runtime": "std.wait_for(self.n)",
            "runtime_zero": "std.wait_for(self.n, allow_zero=True)",
            "waiter_const": f"waiter.wait_for({cfg['n']})",
            "waiter_runtime": "waiter.wait_for(self.n)",
            "waiter_runtime_zero": "waiter.wait_for(self.n, allow_zero=True)",
        }[f]
        L += ["        @ctx", "        async def proc():", "            await self.go", "            self.m <<= 1", f"            await {call}", "            self.m <<= 2", "            await true"]
    elif w == "delay":
        L += ["    x = Port.input(Unsigned[4])", "    o = Port.output(Unsigned[4])", "    t1 = Port.output(Unsigned[4])", "", "    def architecture(self):", ctx_line(cfg)]
        ini = ", initial=Unsigned[4](9)" if cfg["initial"] else ""
        if cfg["form"] == "line":
            L += [f"        line = std.DelayLine(self.x, {cfg['n']}{ini}, ctx=ctx)", "        @std.concurrent", "        def views():", "            self.o <<= line.last()", "            self.t1 <<= line[1]"]
        else:
            L += ["        @ctx", "        def proc():", f"            self.o <<= std.delayed(self.x, {cfg['n']}{ini})", "            self.t1 <<= self.x"]
    elif w in ("clkdiv", "toggle"):
        L += ["    p = Port.input(Unsigned[4])", "    q = Port.input(Unsigned[4])", "    do_en = Port.input(Bit)", "    do_dis = Port.input(Bit)", "    state = Port.output(Bit)", "    rising = Port.output(Bit)", "    falling = Port.output(Bit)", "", "    def architecture(self):", ctx_line(cfg, freq=bool(cfg.get("dur")))]
        if w == "clkdiv":
            per = "self.p" if cfg["p"] == "rt" else str(cfg["p"])
            L.append(f"        gen = std.ClockDivider(ctx, {per}, default_state={cfg['ds']}, tick_at_start={cfg['ts']}, require_enable={cfg['re']})")
        else:
            a = "self.p" if cfg["a"] == "rt" else str(cfg["a"])
            b = "" if cfg["b"] is None else (", self.q" if cfg["b"] == "rt" else f", {cfg['b']}")
            if cfg.get("dur"):
                a, b = f"std.ns({10 * cfg['a']})", f", std.ns({10 * cfg['b']})"
            L.append(f"        gen = std.ToggleSignal(ctx, {a}{b}, default_state={cfg['ds']}, first_state={cfg['fs']}, require_enable={cfg['re']})")
        L += ["        @ctx", "        def ctl():", "            if self.do_en:", "                gen.enable()", "            elif self.do_dis:", "                gen.disable()", "        @std.concurrent", "        def views():", "            self.state <<= gen.state()", "            self.rising <<= gen.rising()", "            self.falling <<= gen.falling()"]
    elif w == "counter":
        L += ["    p = Port.input(Unsigned[3])", "    cnt = Port.output(Unsigned[4])", "", "    def architecture(self):", ctx_line(cfg)]
        lim = "self.p" if cfg["lim"] == "rt" else str(cfg["lim"])
        L += [f"        c = std.continuous_counter(ctx, {lim})", "        @std.concurrent", "        def views():", "            self.cnt <<= c"]
    elif w == "debounce":
        L += ["    x = Port.input(Bit)", "    o = Port.output(Bit)", "", "    def architecture(self):", ctx_line(cfg)]
        L += [f"        deb = std.debounce(ctx, self.x, {cfg['p']}, initial={cfg['ini']})", "        @std.concurrent", "        def views():", "            self.o <<= deb"]
    return "\n".join(L) + "\n"


# ---- reference models: step(inputs) is called for every executed step, reset() while reset is active --------------

class WaitRef:
    OUTS = ("m",)

    def __init__(self, cfg):
        self.cfg = cfg
        self.reset()

    def reset(self):
        self.m = 0
        self.inp = None
        self.g = self._run()
        self.waits = 0
        self.zero_waits = 0

    def _run(self):
        f = self.cfg["form"]
        while True:
            while not self.inp["go"]:
                yield
            self.m = 1
            n = self.inp["n"] if "runtime" in f else self.cfg["n"]
            self.waits += 1
            if n == 0:
                self.zero_waits += 1
            for _ in range(n):  # resumes exactly n steps after the wait was reached
                yield
            self.m = 2
            yield  # await true
            yield  # a finished coroutine restarts on the next clock

    def step(self, inp):
        self.inp = inp
        next(self.g)

    def outs(self):
        return {"m": self.m}


class DelayRef:
    OUTS = ("o", "t1")

    def __init__(self, cfg):
        self.cfg = cfg
        self.reset()

    def reset(self):
        ini = 9 if self.cfg["initial"] else None
        self.line = [ini] * self.cfg["n"]
        self.o = None
        self.t1 = None
        self.x = None

    def step(self, inp):
        x = inp["x"]
        if self.cfg["form"] == "fn":
            # o <<= delayed(x, n): one more register behind the line
            self.o = self.line[-1] if self.line else x
            self.t1 = x
        self.line = ([x] + self.line)[: self.cfg["n"]]

    def outs(self):
        if self.cfg["form"] == "line":
            return {"o": self.line[-1], "t1": self.line[0]}
        return {"o": self.o, "t1": self.t1}


class GenRef:
    """ClockDivider / ToggleSignal: a counter with reset = context reset or the registered disable flag"""

    OUTS = ("state", "rising", "falling")

    def __init__(self, cfg):
        self.cfg = cfg
        self.reset()
        self.pulses = 0

    def reset(self):
        c = self.cfg
        self.rc = 1 if c["re"] else 0
        self._counter_reset()

    def _counter_reset(self):
        c = self.cfg
        self.counter = (c["p"] - 1) if (c["w"] == "clkdiv" and c.get("ts")) else 0
        self.state = 1 if c["ds"] else 0
        self.rising = 0
        self.falling = 0

    def limit_first(self, inp):
        c = self.cfg
        if c["w"] == "clkdiv":
            p = inp["p"] if c["p"] == "rt" else c["p"]
            return p - 1, None, c["p"] == "rt"
        a = inp["p"] if c["a"] == "rt" else c["a"]
        b = a if c["b"] is None else (inp["q"] if c["b"] == "rt" else c["b"])
        return a + b - 1, a, (c["a"] == "rt" or c["b"] == "rt")

    def step(self, inp):
        c = self.cfg
        rc_old = self.rc
        if inp["do_en"]:
            self.rc = 0
        elif inp["do_dis"]:
            self.rc = 1
        if rc_old:
            self._counter_reset()
            return
        limit, first, rt = self.limit_first(inp)
        nxt = 0 if ((self.counter >= limit) if rt else (self.counter == limit)) else self.counter + 1
        if c["w"] == "clkdiv":
            ns = (0 if c["ds"] else 1) if nxt == 0 else (1 if c["ds"] else 0)
        else:
            lt = nxt < first
            ns = (1 if lt else 0) if c["fs"] else (0 if lt else 1)
        self.rising = 1 if (not self.state and ns) else 0
        self.falling = 1 if (self.state and not ns) else 0
        self.pulses += self.rising
        self.state = ns
        self.counter = nxt
        if self.rc and c["reset"] == "async":
            # the counter context's reset is ctx.or_reset(disable flag): below an asynchronous context reset it is asynchronous
            # as well, so a disable acts as soon as the flag is registered, not at the next edge (an enable acts at the next
            # edge in both cases)
            self._counter_reset()

    def stalled_with_disable(self):
        """the counter context is reset by the disable flag even while the step condition is false"""
        if self.rc:
            self._counter_reset()

    def outs(self):
        return {"state": self.state, "rising": self.rising, "falling": self.falling}


class CounterRef:
    OUTS = ("cnt",)

    def __init__(self, cfg):
        self.cfg = cfg
        self.reset()
        self.wraps = 0

    def reset(self):
        self.c = 0

    def step(self, inp):
        rt = self.cfg["lim"] == "rt"
        lim = inp["p"] if rt else self.cfg["lim"]
        if (self.c >= lim) if rt else (self.c == lim):
            self.c = 0
            self.wraps += 1
        else:
            self.c += 1

    def outs(self):
        return {"cnt": self.c}


class DebounceRef:
    OUTS = ("o",)

    def __init__(self, cfg):
        self.cfg = cfg
        self.reset()
        self.changes = 0

    def reset(self):
        self.c = self.cfg["p"] // 2
        self.o = 1 if self.cfg["ini"] else 0

    def step(self, inp):
        P = self.cfg["p"]
        old = self.o
        if inp["x"]:
            if self.c == P:
                self.o = 1
            else:
                self.c += 1
        else:
            if self.c == 0:
                self.o = 0
            else:
                self.c -= 1
        self.changes += old != self.o

    def outs(self):
        return {"o": self.o}


REFS = {"wait": WaitRef, "delay": DelayRef, "clkdiv": GenRef, "toggle": GenRef, "counter": CounterRef, "debounce": DebounceRef}


def gen_schedule(rs, cfg, n):
    w = cfg["w"]
    steps = []
    stall = rs.below(3) == 0
    resets = []
    if cfg["reset"] and rs.below(2):
        for _ in range(rs.range(1, 3)):
            resets.append((rs.range(3, n - 5), rs.range(1, 3)))
    gm = rs.below(4)
    hold = {"p": rs.range(1, 15), "q": rs.range(1, 15)}
    xm = rs.below(3)
    x = 0
    for k in range(n):
        st = {"en": 1}
        if stall and rs.below(6) == 0:
            st["_stall"] = rs.range(1, 4)
        if w == "wait":
            st["go"] = 1 if gm == 0 else rs.below(2) if gm == 1 else (1 if rs.below(6) == 0 else 0) if gm == 2 else (0 if rs.below(8) == 0 else 1)
            lo = 0 if cfg["form"].endswith("zero") else 1
            st["n"] = rs.range(lo, 15) if rs.below(3) == 0 else rs.range(lo, 4)
        elif w == "delay":
            st["x"] = rs.below(16)
        elif w in ("clkdiv", "toggle"):
            if rs.below(18) == 0:
                hold["p"] = rs.range(1, 15) if rs.below(2) else rs.range(1, 4)
            if rs.below(18) == 0:
                hold["q"] = rs.range(1, 15) if rs.below(2) else rs.range(1, 4)
            st["p"], st["q"] = hold["p"], hold["q"]
            st["do_en"] = 1 if rs.below(14) == 0 else 0
            st["do_dis"] = 1 if rs.below(25) == 0 else 0
        elif w == "counter":
            if rs.below(12) == 0:
                hold["p"] = rs.range(1, 7)
            st["p"] = hold["p"] & 7
        elif w == "debounce":
            if xm == 0:
                x = rs.below(2)
            elif xm == 1:
                if rs.below(7) == 0:
                    x = 1 - x
            else:
                # bouncing: long stable phases with a burst of toggles at each change
                if rs.below(20) == 0:
                    x = 1 - x
                elif rs.below(10) == 0:
                    st["_bounce"] = 1
            st["x"] = (1 - x) if st.pop("_bounce", 0) else x
        steps.append(st)
    return {"steps": steps, "resets": resets}


def simulate(cfg, design, sched, order_seed, order_mode="uniform"):
    # run-time periods carry a concurrent precondition assertion (period >= 1): no input glitches there
    rt_pre = cfg["w"] in ("clkdiv", "toggle") and "rt" in (cfg.get("p"), cfg.get("a"), cfg.get("b"))
    d = dutm.Dut(design, order_seed, "c16", order_mode=order_mode, offsets=not rt_pre)
    ref = REFS[cfg["w"]](cfg)
    steps = sched["steps"]
    resets = {k: l for k, l in sched["resets"]}
    names = [x for x in steps[0] if not x.startswith("_") and x != "en"]
    first = {"rst": 0, "en": 1}
    for x in names:
        first[x] = steps[0][x]
    d.start(first)
    stall = rst_left = 0
    fired = {"f_stall": 0, "f_reset": 0, "steps": 0, "f_runtime_value_changed": 0}
    prev_rt = None
    for k, st in enumerate(steps):
        if "_stall" in st and stall == 0:
            stall = st["_stall"]
        if k in resets:
            rst_left = resets[k]
            fired["f_reset"] += 1
        inp = {x: st[x] for x in names}
        inp["en"] = 0 if stall else 1
        inp["rst"] = 1 if rst_left else 0
        rt = (inp.get("n"), inp.get("p"), inp.get("q"))
        if prev_rt is not None and rt != prev_rt:
            fired["f_runtime_value_changed"] += 1
        prev_rt = rt
        d.clock(inp)
        if rst_left:
            ref.reset()
        elif inp["en"]:
            ref.step(inp)
            fired["steps"] += 1
        else:
            fired["f_stall"] += 1
            if hasattr(ref, "stalled_with_disable"):
                ref.stalled_with_disable()
        exp = ref.outs()
        for x, v in exp.items():
            if v is None:
                continue
            g = d.get(x)
            if g != v:
                return "timing", {"rule": f"{cfg['w']}:{x}-differs-from-model", "clock": k, "signal": x, "expected": v, "got": g, "inputs": inp}, ref, fired, d
        pr = d.problems()
        if pr:
            return pr[0], dict(pr[1], clock=k), ref, fired, d
        d.half()
        stall = max(0, stall - 1)
        rst_left = max(0, rst_left - 1)
    return "ok", {}, ref, fired, d


def run_one(seed, idx, tier):
    cfg = CONFIGS[idx % len(CONFIGS)]
    rs = rng.Stream(seed, "C16", "schedule", idx)
    n = rs.range(60, 160 if tier == "quick" else 400)
    sched = gen_schedule(rs, cfg, n)
    oseed = rng.derive(seed, "C16", "order", idx)
    mode = ("uniform", "uniform", "reverse", "stable")[rng.Stream(oseed, "mode").below(4)]
    key = repr(sorted(cfg.items(), key=str))
    res = {"idx": idx, "shape": hashlib.sha256(key.encode()).hexdigest()[:12], "cfg": cfg}
    src = render_src(cfg)
    payload = {"cfg": cfg, "sched": sched, "order_seed": oseed, "order_mode": mode, "source": src}
    try:
        design = dutm.compile_design(src, cache_key=key)
    except render.Rejected as e:
        res.update(status="harness", vclass="wrapper-rejected", detail={"reason": f"{e.exc_type}: {e.message[:300]}", "cfg": cfg})
        return res
    except Exception as e:
        stt, det = dutm.guarded(lambda: (_ for _ in ()).throw(e))
        if stt == "legality":
            res.update(status="skipped", reason="illegal-vhdl:" + str(det.get("rule")))
            return res
        res.update(status="violation", vclass=stt, detail=det, payload=payload)
        return res
    out = dutm.guarded(lambda: simulate(cfg, design, sched, oseed, mode))
    if len(out) == 2:
        res.update(status="violation", vclass=out[0], detail=out[1], payload=payload)
        return res
    status, detail, ref, fired, d = out
    res["stats"] = dict(d.stats(), **fired, waits=getattr(ref, "waits", 0), zero_waits=getattr(ref, "zero_waits", 0), pulses=getattr(ref, "pulses", 0), wraps=getattr(ref, "wraps", 0), debounce_changes=getattr(ref, "changes", 0))
    if status != "ok":
        res.update(status="violation", vclass=status + ":" + str(detail.get("rule", "")), detail=detail, payload=payload)
    else:
        res["status"] = "ok"
    return res


def replay(payload):
    cfg = payload["cfg"]
    try:
        design = dutm.compile_design(render_src(cfg))
    except render.Rejected as e:
        return "wrapper-rejected", {"reason": str(e)}
    out = dutm.guarded(lambda: simulate(cfg, design, payload["sched"], payload["order_seed"], payload.get("order_mode", "uniform")))
    if len(out) == 2:
        return out
    if out[0] == "ok":
        return "ok", {}
    return out[0] + ":" + str(out[1].get("rule", "")), out[1]


def plan(tier):
    return len(CONFIGS) * (3 if tier == "quick" else 100)


def finding_key(r):
    return None


ASSUMPTIONS = [
    "VSIM stands in for a VHDL simulator",
    "a stalled clock (step condition false) is not a step; reset has priority over the step condition",
    "run-time durations respect the documented preconditions (>= 1, or >= 0 with allow_zero); ClockDivider/ToggleSignal run-time periods >= 1",
    "ClockDivider / ToggleSignal model: counter 0..period-1 restarted by (context reset or the registered disable flag), state from the NEXT counter value, "
    "rising/falling registered together with the state; enable()/disable() take effect through a registered flag (calibrated on the unchanged tree); "
    "below an asynchronous context reset the flag resets the counter asynchronously too (ctx.or_reset), so a disable is visible one clock earlier than below a synchronous one",
    "contexts: no reset, synchronous reset, asynchronous reset -- all with a run-time step condition",
    "debounce model: the output changes in the step in which the saturated counter is observed at period / zero",
]


def evidence(results, tier):
    ok = [r for r in results if r["status"] == "ok"]
    agg = {}
    per = {}
    for r in results:
        dutm.add_stats(agg, r.get("stats") or {})
        per[r["cfg"]["w"]] = per.get(r["cfg"]["w"], 0) + 1
    nontriv = {(r["shape"], r["stats"]["f_stall"] > 0, r["stats"]["f_reset"] > 0) for r in ok if r["stats"]["steps"] >= 30 and (r["stats"]["waits"] + r["stats"]["pulses"] + r["stats"]["wraps"] + r["stats"]["debounce_changes"] >= 2 or r["cfg"]["w"] == "delay")}
    sample = None
    for r in ok:
        if r["cfg"]["w"] == "wait" and r["stats"]["waits"] >= 3 and r["stats"]["f_stall"] > 0:
            sample = {"run": r["idx"], "config": r["cfg"], "waits_completed_or_started": r["stats"]["waits"], "stalled_clocks": r["stats"]["f_stall"], "wrapper_source": render_src(r["cfg"]).split("def architecture(self):")[1]}
            break
    return {
        "evaluations": len(results),
        "distinct_nontrivial": len(nontriv),
        "rule": "one evaluation = one wrapper configuration (%d configurations over 6 utilities) simulated under one seeded schedule (reach instants, run-time values changing, enable/disable, bouncing input, "
        "stalls, resets, process order) with every output compared with the model after every clock; distinct = distinct (configuration, stall fired, reset fired); non-trivial = >= 30 executed steps and >= 2 waits / pulses / wraps / output changes" % len(CONFIGS),
        "samples": [sample] if sample else [],
        "configurations": len(CONFIGS),
        "runs_per_utility": per,
        "simulated_clocks": agg.get("clocks", 0),
        "executed_steps": agg.get("steps", 0),
        "waits": agg.get("waits", 0),
        "zero_length_waits": agg.get("zero_waits", 0),
        "rising_pulses": agg.get("pulses", 0),
        "counter_wraps": agg.get("wraps", 0),
        "debounce_output_changes": agg.get("debounce_changes", 0),
        "faults_fired": {"stalled_clocks": agg.get("f_stall", 0), "resets": agg.get("f_reset", 0), "runtime_value_changes": agg.get("f_runtime_value_changed", 0), "process_order_permutations": agg.get("reorders", 0), "input_glitch": agg.get("off_glitch", 0)},
        "real_components": ["cohdl compiler", "std.wait_for / Waiter / DelayLine / delayed / continuous_counter / ClockDivider / ToggleSignal / debounce as shipped", "emitted VHDL"],
        "model_components": ["VSIM", "per-step reference models", "stimulus generator"],
    }


def acceptance(cov, tier):
    probs = []
    for k in ("stalled_clocks", "resets", "runtime_value_changes"):
        if not cov["faults_fired"].get(k):
            probs.append(f"fault kind {k} never fired")
    for k in ("waits", "zero_length_waits", "rising_pulses", "counter_wraps", "debounce_output_changes"):
        if not cov.get(k):
            probs.append(f"reach probe {k} is zero")
    return probs
