"""C08 — intermediate values are written before read within every activation.

Dynamic half (the poison fault): VSIM keeps compiler-generated process variables as per-activation locals, so a read
of one that was not written earlier in the SAME activation raises ReadBeforeWrite -- on in every run of every
simulated check.  This module adds the static half as an enumerated placement workload:

  construct  x  where a value `t = d + K_i` is defined (any subset of the branches, optionally also before the
  construct)  x  where it is used (after the construct / inside a sibling branch / in a later coroutine state)

Oracle, from the statement: a value defined on every path to its use (in the same state) may be accepted and then
must (i) never trigger the read-before-write monitor and (ii) deliver the value Python semantics give on every
path (all branches are forced by the stimulus); a value computed in only some branches and used afterwards, used
in a sibling branch that does not define it, or consumed in a later state MUST be rejected.
"""
from __future__ import annotations

import hashlib
import itertools

from vf.core import rng
from vf.gen import render
from vf.tb import dut as dutm

PROP = "C08"
LEVEL = "exploration"

# construct: (name, number of branches, has_default)
CONSTRUCTS = [
    ("if", 1, False),
    ("ifelse", 2, True),
    ("ifelif", 2, False),
    ("ifelifelse", 3, True),
    ("match2", 2, False),
    ("match2d", 3, True),
    ("match1d", 2, True),
    ("for2", 2, False),
    ("for2else", 3, True),
    ("for3else", 4, True),
    ("nested", 3, False),  # if a: (if b: B0 else: B1) elif c: B2        (no final else)
    ("nestedelse", 4, True),  # if a: (if b: B0 else: B1) else: (if c: B2 else: B3)
]


def cases():
    out = []
    for name, nb, has_default in CONSTRUCTS:
        for defs in itertools.product((0, 1), repeat=nb):
            for pre in (0, 1):
                if not any(defs) and not pre:
                    continue
                for ctx in ("seq", "coro"):
                    out.append({"c": name, "defs": list(defs), "pre": pre, "use": "after", "ctx": ctx})
                for j in range(nb):
                    if not defs[j]:
                        out.append({"c": name, "defs": list(defs), "pre": pre, "use": f"sib{j}", "ctx": "seq"})
    # state boundary (coroutines): define, await, use
    for pre_kind in ("straight", "in_if", "in_loop", "redefined_after_await", "loop_continue", "loop_continue_else"):
        out.append({"c": "state", "defs": [1], "pre": 0, "use": pre_kind, "ctx": "coro"})
    # the same placements with a REFERENCE carrying a run-time index (t = self.d[self.i2]: the index is an intermediate
    # hidden in the reference) instead of a computed value
    for name, nb, has_default in CONSTRUCTS:
        if name not in ("if", "ifelse", "match2d", "for2else", "nestedelse"):
            continue
        for defs in itertools.product((0, 1), repeat=nb):
            for pre in (0, 1):
                if not any(defs) and not pre:
                    continue
                out.append({"c": name, "defs": list(defs), "pre": pre, "use": "after", "ctx": "seq", "dk": "rtref"})
                for j in range(nb):
                    if not defs[j]:
                        out.append({"c": name, "defs": list(defs), "pre": pre, "use": f"sib{j}", "ctx": "seq", "dk": "rtref"})
    for pre_kind in ("straight", "in_if"):
        out.append({"c": "state", "defs": [1], "pre": 0, "use": pre_kind, "ctx": "coro", "dk": "rtref"})
    # the same placements with the value DEFINED by a call that has two return paths (the merged return value is itself
    # assigned in both branches of an inner if/else)
    for name, nb, has_default in CONSTRUCTS:
        if name not in ("if", "ifelse", "match2d", "for2else", "nestedelse"):
            continue
        for defs in itertools.product((0, 1), repeat=nb):
            for pre in (0, 1):
                if not any(defs) and not pre:
                    continue
                out.append({"c": name, "defs": list(defs), "pre": pre, "use": "after", "ctx": "seq", "dk": "callret"})
                for j in range(nb):
                    if not defs[j]:
                        out.append({"c": name, "defs": list(defs), "pre": pre, "use": f"sib{j}", "ctx": "seq", "dk": "callret"})
    # the same placements with the value CONSUMED differently after the construct: as the subject of a match without /
    # with a default (all patterns constant: one VHDL case statement whose selector is the only read) or in a comparison
    for name, nb, has_default in CONSTRUCTS:
        if name not in ("if", "ifelse", "match2d", "for2else", "nestedelse"):
            continue
        for defs in itertools.product((0, 1), repeat=nb):
            for pre in (0, 1):
                if not any(defs) and not pre:
                    continue
                for uk in ("matchsubj", "matchsubjd", "cmp"):
                    out.append({"c": name, "defs": list(defs), "pre": pre, "use": "after", "ctx": "seq", "uk": uk})
    return out


CASES = cases()
K = [1, 2, 3, 4, 5]
KPRE = 9
MATCH_VALUES = [1, 2, 3, 4, 5, 6, 9, 10, 11, 12]


def paths(c):
    """list of (selector inputs dict, branch index or None for the fall-through path)"""
    name = c["c"]
    if name == "if":
        return [({"a": 1}, 0), ({"a": 0}, None)]
    if name == "ifelse":
        return [({"a": 1}, 0), ({"a": 0}, 1)]
    if name == "ifelif":
        return [({"a": 1}, 0), ({"a": 0, "b": 1}, 1), ({"a": 0, "b": 0}, None)]
    if name == "ifelifelse":
        return [({"a": 1}, 0), ({"a": 0, "b": 1}, 1), ({"a": 0, "b": 0}, 2)]
    if name == "match2":
        return [({"d": 0}, 0), ({"d": 1}, 1), ({"d": 7}, None)]
    if name == "match2d":
        return [({"d": 0}, 0), ({"d": 1}, 1), ({"d": 7}, 2)]
    if name == "match1d":
        return [({"d": 0}, 0), ({"d": 5}, 1)]
    if name == "for2":
        return [({"d": 1}, 0), ({"d": 3}, 0), ({"d": 2}, 1), ({"d": 4}, None)]
    if name == "for2else":
        return [({"d": 1}, 0), ({"d": 2}, 1), ({"d": 12}, 2)]
    if name == "for3else":
        return [({"d": 5}, 0), ({"d": 6}, 1), ({"d": 4}, 2), ({"d": 8}, 3)]
    if name == "nested":
        return [({"a": 1, "b": 1}, 0), ({"a": 1, "b": 0}, 1), ({"a": 0, "c": 1}, 2), ({"a": 0, "c": 0}, None)]
    if name == "nestedelse":
        return [({"a": 1, "b": 1}, 0), ({"a": 1, "b": 0}, 1), ({"a": 0, "c": 1}, 2), ({"a": 0, "c": 0}, 3)]
    raise AssertionError(name)


def expected(c):
    """'accept' (may be accepted, then must behave) or 'reject' (must be rejected)"""
    if c["c"] == "state":
        return "accept" if c["use"] == "redefined_after_await" else "reject"
    if c["pre"]:
        return "accept"
    if c["use"] == "after":
        for _, br in paths(c):
            if br is None or not c["defs"][br]:
                return "reject"
        return "accept"
    return "reject"  # sibling branch that does not define it


def branch_body(c, j, ind):
    pad = " " * ind
    L = []
    if c["defs"][j]:
        L.append(f"{pad}t = self.d[self.i2]" if c.get("dk") == "rtref" else f"{pad}t = two(self.s2, self.d, {K[j]})" if c.get("dk") == "callret" else f"{pad}t = self.d + {K[j]}")
    if c["use"] == f"sib{j}":
        L.append(f"{pad}self.o[0] <<= t" if c.get("dk") == "rtref" else f"{pad}self.o <<= t")
    L.append(f"{pad}self.m <<= {j + 1}")
    return L


def render_src(c):
    H = [
        "from __future__ import annotations",
        "import cohdl",
        "from cohdl import Bit, BitVector, Unsigned, Port, Signal, Variable, Null, Full, true, false",
        "from cohdl import std",
        "",
        "def two(c, x, k):",
        "    if c:",
        "        return x + k",
        "    else:",
        "        return x + (k + 1)",
        "",
        "class E(cohdl.Entity):",
        "    clk = Port.input(Bit)",
        "    a = Port.input(Bit)",
        "    b = Port.input(Bit)",
        "    c = Port.input(Bit)",
        "    s2 = Port.input(Bit)",
        "    d = Port.input(Unsigned[4])",
        "    i2 = Port.input(Unsigned[2])",
        "    o = Port.output(Unsigned[4], default=0)",
        "    m = Port.output(Unsigned[4], default=0)",
        "",
        "    def architecture(self):",
        "        @std.sequential(std.Clock(self.clk))",
    ]
    B = []
    name = c["c"]
    if name == "state":
        H.append("        async def proc():")
        u = c["use"]
        if c.get("dk") == "rtref":
            B = ["t = self.d[self.i2]"] + (["await self.a"] if u == "straight" else ["if self.b:", "    await self.a"]) + ["self.o[0] <<= t"]
            return "\n".join(H + ["            " + l for l in B]) + "\n"
        if u == "straight":
            B = ["t = self.d + 1", "await self.a", "self.o <<= t"]
        elif u == "in_if":
            B = ["t = self.d + 1", "if self.b:", "    await self.a", "self.o <<= t"]
        elif u == "in_loop":
            B = ["t = self.d + 1", "while self.b:", "    self.m <<= self.m + 1", "self.o <<= t"]
        elif u == "loop_continue":
            # the loop head (with the definition) is inlined again where `continue` is taken in the later state; the use on
            # the other path still reads a value of the earlier state
            B = ["while True:", "    t = self.d + 1", "    await self.a", "    if self.b:", "        continue", "    self.o <<= t"]
        elif u == "loop_continue_else":
            B = ["while True:", "    t = self.d + 1", "    await self.a", "    if self.b:", "        self.m <<= 1", "        continue", "    else:", "        self.o <<= t"]
        else:
            B = ["t = self.d + 1", "self.m <<= t", "await self.a", "t = self.d + 2", "self.o <<= t"]
        return "\n".join(H + ["            " + l for l in B]) + "\n"
    H.append("        async def proc():" if c["ctx"] == "coro" else "        def proc():")
    if c["pre"]:
        B.append("t = self.d[self.i2]" if c.get("dk") == "rtref" else f"t = two(self.s2, self.d, {KPRE})" if c.get("dk") == "callret" else f"t = self.d + {KPRE}")
    if name in ("if", "ifelse", "ifelif", "ifelifelse"):
        B.append("if self.a:")
        B += branch_body(c, 0, 4)
        if name in ("ifelif", "ifelifelse"):
            B.append("elif self.b:")
            B += branch_body(c, 1, 4)
        if name == "ifelse":
            B.append("else:")
            B += branch_body(c, 1, 4)
        if name == "ifelifelse":
            B.append("else:")
            B += branch_body(c, 2, 4)
    elif name.startswith("match"):
        B.append("match self.d:")
        vals = [0, 1] if name != "match1d" else [0]
        for j, v in enumerate(vals):
            B.append(f"    case {v}:")
            B += branch_body(c, j, 8)
        if name.endswith("d"):
            B.append("    case _:")
            B += branch_body(c, len(vals), 8)
    elif name.startswith("for"):
        n = 3 if name.startswith("for3") else 2
        B.append(f"for i in range({n}):")
        B.append("    if self.d[i]:")
        for j in range(n):
            B.append(f"        {'if' if j == 0 else 'elif'} i == {j}:")
            B += branch_body(c, j, 12)
        B.append("        break")
        if name.endswith("else"):
            B.append("else:")
            B += branch_body(c, n, 4)
    elif name in ("nested", "nestedelse"):
        B.append("if self.a:")
        B.append("    if self.b:")
        B += branch_body(c, 0, 8)
        B.append("    else:")
        B += branch_body(c, 1, 8)
        if name == "nested":
            B.append("elif self.c:")
            B += branch_body(c, 2, 4)
        else:
            B.append("else:")
            B.append("    if self.c:")
            B += branch_body(c, 2, 8)
            B.append("    else:")
            B += branch_body(c, 3, 8)
    if c["use"] == "after" and c.get("uk") in ("matchsubj", "matchsubjd"):
        B.append("match t:")
        for v in MATCH_VALUES:
            B += [f"    case {v}:", f"        self.o <<= {v}"]
        if c["uk"] == "matchsubjd":
            B += ["    case _:", "        self.o <<= 14"]
    elif c["use"] == "after" and c.get("uk") == "cmp":
        B += ["if t == 3:", "    self.o <<= 3", "else:", "    self.o <<= 14"]
    elif c["use"] == "after":
        B.append("self.o[0] <<= t" if c.get("dk") == "rtref" else "self.o <<= t")
    if c["ctx"] == "coro":
        B.append("await true")
    return "\n".join(H + ["            " + l for l in B]) + "\n"


def model_value(c, br, d, i2=0, s2=1):
    """value delivered to o on the path through branch br (None = fall-through), or 'hold' when o is not assigned"""
    if c.get("dk") == "rtref":
        bit = (d >> i2) & 1
        if c["use"] == "after":
            return bit if ((br is not None and c["defs"][br]) or c["pre"]) else None
        return bit if br == int(c["use"][3:]) else "hold"
    if c["use"] == "after":
        v = (d + K[br]) & 15 if br is not None and c["defs"][br] else (d + KPRE) & 15 if c["pre"] else None
        if v is not None and c.get("dk") == "callret" and not s2:
            v = (v + 1) & 15
        if v is None or not c.get("uk"):
            return v
        if c["uk"] == "cmp":
            return 3 if v == 3 else 14
        return v if v in MATCH_VALUES else 14 if c["uk"] == "matchsubjd" else "hold"
    j = int(c["use"][3:])
    if br == j:
        return (d + KPRE + (1 if c.get("dk") == "callret" and not s2 else 0)) & 15  # only reachable when predefined (sibling j does not define it)
    return "hold"


def simulate(c, design, seed, idx):
    rs = rng.Stream(seed, "C08", "stim", idx)
    oseed = rng.derive(seed, "C08", "order", idx)
    d = dutm.Dut(design, oseed, "c08")
    base = {"a": 0, "b": 0, "c": 0, "d": 0, "i2": 0, "s2": 0}
    d.start(base)
    o_exp = 0
    forced = set()
    if c["c"] == "state":
        # redefined_after_await: m gets d+1 in the first state, o gets d'+2 after a
        seq = []
        for k in range(30):
            seq.append({"a": rs.below(2), "b": 0, "c": 0, "d": rs.below(16)})
        st = 0
        m_exp = 0
        for k, inp in enumerate(seq):
            d.clock(inp)
            if st == 0:
                m_exp = (inp["d"] + 1) & 15
                if inp["a"]:
                    # the await is the first suspension: polled from the next clock
                    pass
                st = 1
            elif st == 1:
                if inp["a"]:
                    o_exp = (inp["d"] + 2) & 15
                    st = 2
            else:
                st = 0  # finished coroutine restarts on the next clock
            got = (d.get("o"), d.get("m"))
            if got != (o_exp, m_exp):
                return "mismatch", {"clock": k, "expected(o,m)": [o_exp, m_exp], "got(o,m)": list(got)}, forced
            d.half()
        return "ok", {}, {0}
    P = paths(c)
    order = []
    for rep in range(3):
        order += rs.permute(list(range(len(P))))
    for k, pi in enumerate(order):
        sel, br = P[pi]
        inp = dict(base)
        inp.update(sel)
        if "d" not in sel:
            inp["d"] = rs.below(16)
        inp["i2"] = rs.below(4)
        inp["s2"] = rs.below(2)
        for x in "abc":
            if x not in sel:
                inp[x] = rs.below(2)
        if c["ctx"] == "coro":
            d.clock(inp)  # the body runs completely, then `await true`: two clocks per iteration
            v = model_value(c, br, inp["d"], inp["i2"], inp["s2"])
            if v is not None and v != "hold":
                o_exp = v
            if v is None:
                return "model", {"msg": "accepted although a path leaves the value undefined", "path": sel}, forced
            got = d.get("o")
            if got != o_exp or d.get("m") != (br + 1 if br is not None else d.get("m")):
                return "mismatch", {"clock": k, "path": sel, "branch": br, "expected_o": o_exp, "got_o": got, "m": d.get("m")}, forced
            d.half()
            d.clock(inp)  # `await true` passes, the coroutine finishes; it restarts on the next clock
            d.half()
        else:
            d.clock(inp)
            v = model_value(c, br, inp["d"], inp["i2"], inp["s2"])
            if v is None:
                return "model", {"msg": "accepted although a path leaves the value undefined", "path": sel}, forced
            if v != "hold":
                o_exp = v
            got = d.get("o")
            if got != o_exp:
                return "mismatch", {"clock": k, "path": sel, "branch": br, "expected_o": o_exp, "got_o": got}, forced
            if br is not None and d.get("m") != br + 1:
                return "mismatch", {"clock": k, "path": sel, "branch": br, "expected_m": br + 1, "got_m": d.get("m")}, forced
            d.half()
        forced.add(pi)
    return "ok", {}, forced


PROBES = ["std.axi-aw-before-w", "await-runtime-index", "bool-cast-chain", "bool-cast-chain-variable"]

PROBE_HEAD = """
import cohdl
from cohdl import Bit, BitVector, Unsigned, Port, Signal, Variable, Null, Full, true, false
from cohdl import std
class E(cohdl.Entity):
    clk = Port.input(Bit)
    a = Port.input(Bit)
    d = Port.input(Unsigned[4])
    i2 = Port.input(Unsigned[2])
    o = Port.output(Unsigned[4], default=0)
    def architecture(self):
        @std.sequential(std.Clock(self.clk))
"""
PROBE_SRC = {
    # an awaited expression with a run-time index: the index intermediate is written in the state before the wait
    "await-runtime-index": PROBE_HEAD + "        async def proc():\n            self.o <<= 1\n            await self.d[self.i2]\n            self.o <<= 2\n",
    # chains of redundant bool casts (fixed in /repo: the replaced cast source was itself a removed cast)
    "bool-cast-chain": PROBE_HEAD + "        def proc():\n            x = bool(self.d == 3)\n            if x:\n                self.o <<= 1\n            else:\n                self.o <<= 2\n",
    "bool-cast-chain-variable": PROBE_HEAD + "        def proc():\n            x = bool(self.d == 3)\n            y = bool(x)\n            z = bool(y)\n            self.o <<= 4 if z else 5\n",
}


def library_probe(seed, idx, name="std.axi-aw-before-w"):
    """the read-before-write monitor on fixed designs that earlier rounds found: std.axi.axi4_light with AW accepted before W
    (a value kept in the alias variable of a locally constructed Signal(maybe_uninitialized=True) across states) and small
    source patterns"""
    if name == "std.axi-aw-before-w":
        from vf.props import c20

        m = {"words": 4, "entries": [{"kind": "mem", "word": 0}, {"kind": "mem", "word": 2}]}
        design = dutm.compile_design(c20.render_src(m))  # strict classification: alias variables are intermediates
        ops = [{"op": "w", "addr": 0, "data": 0x12345678, "strb": 15, "aw_delay": 0, "w_delay": 3, "b_ready": "high", "b_late": 0, "gap": 0}, {"op": "r", "addr": 0, "ar_delay": 0, "r_ready": "high", "r_late": 0, "gap": 0}]
        return dutm.guarded(lambda: c20.simulate(m, design, ops, seed, idx, False))
    try:
        design = dutm.compile_design(PROBE_SRC[name])
    except render.Rejected as e:
        return ("rejected", {"reason": str(e)[:100]}, None)
    d = dutm.Dut(design, rng.derive(seed, "C08", "probe", idx), "probe")
    rs = rng.Stream(seed, "C08", "probe", idx)

    def go():
        d.start({"a": 0, "d": 0, "i2": 0})
        for _ in range(24):
            d.clock({"a": rs.below(2), "d": rs.below(16), "i2": rs.below(4)})
            d.half()
        return ("ok", {}, None)

    return dutm.guarded(go)


def table_runs(tier):
    return (len(CASES) + len(PROBES)) * (1 if tier == "quick" else 6)


def generated(seed, idx, tier, j):
    """the read-before-write monitor over GENERATED designs: the C03 programs (helpers with several return paths, hoisted
    expressions, matches, for-break chains) and the C01 coroutines (state machines: nothing computed in one state may be
    consumed in another).  Only the read-before-write class is this property's; any other outcome belongs to C03 / C01."""
    from vf.props import c01, c03

    which = "c03" if j % 3 else "c01"
    r = (c03 if which == "c03" else c01).run_one(seed, j, tier)
    res = {"idx": idx, "shape": f"gen:{which}:{r.get('shape')}", "case": {"c": "generated", "defs": [], "pre": 0, "use": which, "ctx": which}, "expected": "accept", "outcome": "accepted" if r["status"] in ("ok", "violation") else r["status"]}
    if r["status"] not in ("ok", "violation"):
        res["reason"] = "generated design: " + str(r.get("reason") or r["status"])[:80]
        res["outcome"] = "rejected" if r["status"] == "rejected" else "accepted"
    if r["status"] == "violation" and r.get("vclass") == "rbw":
        res.update(status="violation", vclass="rbw", detail=dict(r["detail"], case=res["case"], generator=which, generator_run=j), payload={"case": res["case"], "seed": seed, "idx": idx, "tier": tier, "gen": which, "j": j})
    else:
        res.update(status="ok", paths_forced=1 if r["status"] == "ok" else 0, generated_outcome=r["status"] if r["status"] != "violation" else "other-property:" + str(r.get("vclass")))
    return res


def run_one(seed, idx, tier):
    if idx >= table_runs(tier):
        return generated(seed, idx, tier, idx - table_runs(tier))
    slot = idx % (len(CASES) + len(PROBES))
    if slot >= len(CASES):
        name = PROBES[slot - len(CASES)]
        res = {"idx": idx, "shape": "probe:" + name, "case": {"c": "probe", "defs": [], "pre": 0, "use": name, "ctx": "coro"}, "expected": "accept"}
        out = library_probe(seed, idx, name)
        res["outcome"] = "accepted"
        if len(out) == 2 and out[0] == "rbw":
            res.update(status="violation", vclass="rbw", detail=dict(out[1], case=res["case"]), payload={"case": res["case"], "seed": seed, "idx": idx})
        elif len(out) == 2:
            res.update(status="skipped", reason=str(out[0]))
        elif out[0] == "rejected":
            res.update(status="ok", outcome="rejected", reason=out[1]["reason"])
        else:
            res.update(status="ok", paths_forced=1)
        return res
    c = CASES[slot]
    exp = expected(c)
    key = repr(sorted(c.items()))
    res = {"idx": idx, "shape": hashlib.sha256(key.encode()).hexdigest()[:12], "case": c, "expected": exp}
    src = render_src(c)
    payload = {"case": c, "source": src, "seed": seed, "idx": idx}
    try:
        design = dutm.compile_design(src)
    except render.Rejected as e:
        res.update(status="ok", outcome="rejected", reason=f"{e.exc_type}: {e.message[:80]}", unexpected_rejection=exp == "accept")
        return res
    except Exception as e:
        stt, det = dutm.guarded(lambda: (_ for _ in ()).throw(e))
        if stt == "legality":
            res.update(status="skipped", reason="illegal-vhdl:" + str(det.get("rule")))
            return res
        res.update(status="violation", vclass=stt, detail=det, payload=payload)
        return res
    if exp == "reject":
        res.update(status="violation", vclass="accepted-value-not-defined-on-every-path", detail={"case": c, "source": src.split("def architecture(self):")[1]}, payload=payload)
        return res
    out = dutm.guarded(lambda: simulate(c, design, seed, idx))
    if len(out) == 2:
        res.update(status="violation", vclass=out[0], detail=dict(out[1], case=c), payload=payload)
        return res
    status, detail, forced = out
    res["outcome"] = "accepted"
    res["paths_forced"] = len(forced)
    if status != "ok":
        res.update(status="violation", vclass=status, detail=dict(detail, case=c), payload=payload)
    else:
        res["status"] = "ok"
    return res


def replay(payload):
    c = payload["case"]
    if payload.get("gen"):
        r = generated(payload["seed"], payload["idx"], payload["tier"], payload["j"])
        return (r["vclass"], r["detail"]) if r["status"] == "violation" else ("ok", {})
    if c["c"] == "probe":
        out = library_probe(payload["seed"], payload["idx"], c["use"])
        return (out[0], out[1]) if len(out) == 2 else ("ok", {})
    try:
        design = dutm.compile_design(render_src(c))
    except render.Rejected as e:
        return "rejected", {"reason": str(e)}
    if expected(c) == "reject":
        return "accepted-value-not-defined-on-every-path", {"case": c}
    out = dutm.guarded(lambda: simulate(c, design, payload["seed"], payload["idx"]))
    return out[0], out[1]


def plan(tier):
    return table_runs(tier) + (600 if tier == "quick" else 12000)


def finding_key(r):
    c = (r.get("detail") or {}).get("case") or r.get("case")
    if c and c.get("c") == "probe":
        return f"C08:{r.get('vclass')}:{c['use']}"
    if r.get("vclass") == "accepted-value-not-defined-on-every-path" and c:
        return f"C08:accepted:{c['c']}:defs={''.join(map(str, c['defs']))}:pre={c['pre']}:use={c['use']}:{c['ctx']}"
    return None


ASSUMPTIONS = [
    "the dynamic half (read-before-write monitor = poison fault) is on in every simulated check (C01, C03, C04, C12, C14-C16, C20); this module is the enumerated static half "
    "plus a sweep of the monitor over generated C03 programs and C01 coroutines (only the read-before-write class of their outcomes is reported here)",
    "expected-reject table written from the statement: value defined in only some branches and used afterwards / in a sibling branch / in a later state",
    "an unexpected rejection of a program the table marks acceptable is counted, not flagged (the statement does not promise acceptance)",
]


def evidence(results, tier):
    acc = [r for r in results if r.get("outcome") == "accepted"]
    rej = [r for r in results if r.get("outcome") == "rejected"]
    nontriv = {r["shape"] for r in results if (r.get("outcome") == "accepted" and r.get("paths_forced", 0) >= 2) or (r.get("outcome") == "rejected" and r["expected"] == "reject")}
    by = {}
    for r in results:
        k = f"{r['expected']}->{r.get('outcome', r['status'])}"
        by[k] = by.get(k, 0) + 1
    reasons = {}
    for r in rej:
        reasons[str(r.get("reason"))[:70]] = reasons.get(str(r.get("reason"))[:70], 0) + 1
    sample = [{"case": r["case"], "expected": r["expected"], "outcome": r.get("outcome"), "body": render_src(r["case"]).split("def architecture(self):")[1]} for r in results[:400] if r["case"]["c"] == "match2" and r["case"]["use"] == "after"][:2]
    return {
        "evaluations": len(results),
        "distinct_nontrivial": len(nontriv),
        "rule": "one evaluation = one placement case (construct x definition subset x predefinition x use site x context kind: %d cases, enumerated completely in the quick tier); expected-reject cases must be rejected by the compiler, "
        "accepted cases are simulated with every path forced (value comparison + read-before-write monitor); distinct = distinct cases; non-trivial = accepted with >= 2 paths forced, or correctly rejected" % len(CASES),
        "samples": sample or [{"note": "no sample"}],
        "exhaustive": False,
        "cases": len(CASES),
        "generated_designs_under_the_read_before_write_monitor": {
            "C03 programs": len([r for r in results if r["case"]["c"] == "generated" and r["case"]["use"] == "c03"]),
            "C01 coroutines": len([r for r in results if r["case"]["c"] == "generated" and r["case"]["use"] == "c01"]),
            "simulated_to_the_end": len([r for r in results if r["case"]["c"] == "generated" and r.get("paths_forced")]),
            "outcomes": {k: len([r for r in results if r.get("generated_outcome") == k]) for k in sorted({r.get("generated_outcome") for r in results if r.get("generated_outcome")})},
        },
        "outcome_matrix(expected->observed)": by,
        "unexpected_rejections": len([r for r in rej if r.get("unexpected_rejection")]),
        "rejection_reasons": reasons,
        "paths_forced": sum(r.get("paths_forced", 0) for r in acc),
        "faults_fired": {"read_before_write_monitor(poison)": "on in every accepted case", "process_order": "seeded"},
        "real_components": ["cohdl compiler (detect_uninitialized_temporaries, state checks)", "emitted VHDL"],
        "model_components": ["VSIM read-before-write monitor", "expected-reject table", "path value model"],
    }
