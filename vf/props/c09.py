"""C09 — compile-time evaluation of primitives agrees with the emitted run-time logic (thin).

Two replicas per case: K, the operation applied to Python-level CoHDL constants (evaluated by CoHDL's own Python
arithmetic, which is what the compiler folds), and P, the same operation applied to input ports of a design compiled
by the real compiler and simulated in VSIM with the ports held at those values (applied as a sequence together with
other valuations, seeded process order).  The two results must have the same type, width and bit pattern.  No third
model is needed: agreement is the property.  A fold-time exception or a rejected run-time design is 'not explored'.
Operations: + - * truncdiv % rem (vector x vector, vector x int, int x vector), & | ^ ~, comparisons, shifts by int,
neg / abs, resize, typed views, concatenation, index, slice -- widths 1..64 so that float based shortcuts in the
Python side arithmetic are exercised.
"""
from __future__ import annotations

import hashlib

from vf.core import rng
from vf.gen import expr, render
from vf.tb import dut as dutm

PROP = "C09"
LEVEL = "exploration"
WIDTHS = [1, 2, 3, 4, 7, 8, 16, 33, 53, 54, 64]
SMALL = [1, 2, 3, 4, 7, 8]


def gen_case(seed, idx):
    rs = rng.Stream(seed, "C09", "case", idx)
    wl = WIDTHS if rs.below(3) == 0 else SMALL
    k = rs.choice(["U", "S"])
    w1, w2 = rs.choice(wl), rs.choice(wl)
    A = ["port", (k, w1), "pa"]
    B = ["port", (k, w2), "pb"]
    opk = rs.weighted([(8, "arith"), (4, "arithint"), (4, "div"), (3, "divint"), (3, "bitwise"), (4, "cmp"), (2, "cmpint"), (2, "cmpnf"), (2, "integer"), (3, "shift"), (2, "unary"), (2, "resize"), (3, "conv"), (2, "view"), (2, "concat"), (2, "index"), (2, "slice")])

    def lit(w, kk, nz=False):
        lim = (1 << w) - 1 if kk == "U" else (1 << (w - 1)) - 1
        lo = 0 if kk == "U" else -lim - 1
        v = rs.choice([lo, lim, 0, 1, -1 if kk == "S" else 1, rs.range(lo, lim), rs.range(max(lo, -9), min(lim, 9))])
        v = max(lo, min(lim, v))
        if nz and v == 0:
            v = 1 if lim >= 1 else -1
        return ["ci", v]

    if opk == "arith":
        op = rs.choice(["add", "sub", "mul"])
        t = (k, max(w1, w2)) if op != "mul" else (k, w1 + w2)
        e = [op, t, A, B]
    elif opk == "arithint":
        op = rs.choice(["add", "sub", "mul"])
        t = (k, w1) if op != "mul" else (k, 2 * w1)
        c = lit(w1, k)
        e = [op, t, c, A] if rs.below(2) else [op, t, A, c]
    elif opk == "div":
        op = rs.choice(["truncdiv", "mod", "rem"])
        t = (k, w1) if op == "truncdiv" else (k, w2)
        e = [op, t, A, B]
    elif opk == "divint":
        op = rs.choice(["truncdiv", "mod", "rem"])
        c = lit(w1, k, nz=True)
        e = [op, (k, w1), c, A] if rs.below(2) else [op, (k, w1), A, c]
    elif opk == "bitwise":
        kk = rs.choice(["U", "S", "BV"])
        A = ["port", (kk, w1), "pa"]
        B = ["port", (kk, w1), "pb"]
        e = [rs.choice(["and", "or", "xor"]), (kk, w1), A, B] if rs.below(4) else ["inv", (kk, w1), A]
    elif opk == "cmp":
        e = ["cmp", ("bool",), rs.choice(["lt", "le", "gt", "ge", "eq", "ne"]), A, B]
    elif opk == "cmpint":
        c = lit(w1, k)
        op = rs.choice(["lt", "le", "gt", "ge", "eq", "ne"])
        e = ["cmp", ("bool",), op, c, A] if rs.below(2) else ["cmp", ("bool",), op, A, c]
    elif opk == "integer":
        # run-time integers against compile-time cohdl.Integer constants (and plain ints on either side)
        IA, IB = ["port", ("I", 32), "pa"], ["port", ("I", 32), "pb"]
        op = rs.choice(["add", "sub", "sub", "mul"])
        ci = ["ci", rs.range(-20, 20)]
        e = [op, ("I", 32)] + rs.choice([[ci, IA], [IA, ci], [IA, IB]])
    elif opk == "cmpnf":
        e = ["cmpnf", ("bool",), rs.choice(["lt", "le", "gt", "ge", "eq", "ne"]), A, rs.choice(["Null", "Full"]), rs.below(2)]
    elif opk == "shift":
        e = [rs.choice(["shl", "shr"]), (k, w1), A, ["ci", rs.range(0, w1 + 1)]]
    elif opk == "unary":
        A = ["port", ("S", w1), "pa"]
        e = [rs.choice(["neg", "abs"]), ("S", w1), A]
    elif opk == "resize":
        e = ["resize", (k, w1 + rs.range(0, 9)), A]
    elif opk == "conv":
        k0, k1 = rs.choice([("U", "U"), ("S", "S"), ("U", "S"), ("U", "S")])
        e = ["conv", (k1, w1 + rs.range(1 if k0 != k1 else 0, 9)), ["port", (k0, w1), "pa"]]
    elif opk == "view":
        k1, k2 = rs.sample(["U", "S", "BV"], 2)
        e = ["view", (k2, w1), ["port", (k1, w1), "pa"]]
    elif opk == "concat":
        ka, kb = rs.choice(["U", "S", "BV"]), rs.choice(["U", "S", "BV"])
        e = ["concat", ("BV", w1 + w2), ["port", (ka, w1), "pa"], ["port", (kb, w2), "pb"]]
    elif opk == "index":
        kk = rs.choice(["U", "S", "BV"])
        e = ["index", ("Bit",), ["port", (kk, w1), "pa"], rs.below(w1)]
    else:
        kk = rs.choice(["U", "S", "BV"])
        lo = rs.below(w1)
        hi = rs.range(lo, w1 - 1)
        e = ["slice", ("BV", hi - lo + 1), ["port", (kk, w1), "pa"], hi, lo]
    ports = expr.ports_used(e)
    # operand values: corners and random; divisors non-zero
    vals = []
    for j in range(6):
        env = {}
        for n, t in ports.items():
            w = t[1]
            c = rs.below(7)
            v = 0 if c == 0 else expr.mask(w) if c == 1 else (1 << (w - 1)) if c == 2 else (1 << (w - 1)) - 1 if c == 3 else rs.bits(w)
            if t[0] == "I":
                v = rs.range(-50, 50) & expr.mask(32)
            if n == "pb" and e[0] in ("truncdiv", "mod", "rem") and v == 0:
                v = 1
            if n == "pa" and e[0] in ("truncdiv", "mod", "rem") and e[2][0] == "ci" and v == 0:
                v = 1
            env[n] = v
        vals.append(env)
    return e, opk, vals


def subst(e, env):
    if e[0] == "port":
        t = e[1]
        v = env[e[2]]
        return ["cv", t, expr.sgn(v, t[1]) if t[0] == "S" else v]
    if e[0] in ("ci", "cv"):
        return e
    return [e[0], e[1]] + [subst(x, env) if isinstance(x, list) and x and isinstance(x[0], str) else x for x in e[2:]]


def fold(text):
    """evaluate with CoHDL's Python-level objects -> (kind, width, bit pattern)"""
    import cohdl
    from cohdl import Bit, BitVector, Full, Null, Signed, Unsigned, op

    ns = {"cohdl": cohdl, "Bit": Bit, "BitVector": BitVector, "Signed": Signed, "Unsigned": Unsigned, "op": op, "Null": Null, "Full": Full}
    x = eval(text, ns)
    if isinstance(x, bool):
        return ("bool", 1, int(x))
    if isinstance(x, Bit):
        return ("Bit", 1, int(bool(x)))
    if isinstance(x, Unsigned):
        return ("U", x.width, int(str(x.bitvector), 2))
    if isinstance(x, Signed):
        return ("S", x.width, int(str(x.bitvector), 2))
    if isinstance(x, BitVector):
        return ("BV", x.width, int(str(x), 2))
    if isinstance(x, int) or type(x).__name__ == "Integer":
        return ("I", 32, int(x) & 0xFFFFFFFF)
    return (type(x).__name__, 0, None)


def render_P(e, rt):
    ports = expr.ports_used(e)
    kind, w = rt
    ot = "Bit" if kind in ("Bit", "bool") else expr.tstr((kind, w))
    L = ["from __future__ import annotations", "import cohdl", "from cohdl import Bit, BitVector, Unsigned, Signed, Port, Signal, Variable, Null, Full, true, false", "from cohdl import std, op", "", "class E(cohdl.Entity):"]
    for n in sorted(ports):
        L.append(f"    {n} = Port.input({expr.tstr(ports[n])})")
    L.append(f"    ok = Port.output({ot})")
    body = [f"self.ok <<= {expr.r(e)}"]
    if kind in ("U", "S", "BV"):
        # the bitvector view can only be assigned when the run-time width equals the folded width
        L.append(f"    ob = Port.output(BitVector[{w}])")
        body.append(f"self.ob <<= ({expr.r(e)}).bitvector")
    L += ["", "    def architecture(self):", "        @std.concurrent", "        def logic():"] + ["            " + b for b in body]
    return "\n".join(L) + "\n"


def evaluate(seed, idx):
    e, opk, vals = gen_case(seed, idx)
    info = {"op": e[0] if e[0] != "cmp" else "cmp:" + e[2], "class": opk, "expr": expr.r(e), "operand_types": {n: list(t) for n, t in expr.ports_used(e).items()}}
    folded = []
    for env in vals:
        text = expr.r(subst(e, env))
        try:
            folded.append((env, text, fold(text)))
        except Exception as ex:
            folded.append((env, text, ("exception", 0, f"{type(ex).__name__}: {str(ex)[:80]}")))
    good = [f for f in folded if f[2][0] != "exception"]
    info["fold_exceptions"] = len(folded) - len(good)
    if not good:
        return "rejected", None, {"reason": "fold: " + str(folded[0][2][2])}, info
    kinds = {(f[2][0], f[2][1]) for f in good}
    if len(kinds) != 1:
        return "accepted", "folded-type-depends-on-value", {"types": sorted(map(str, kinds)), "expr": info["expr"]}, info
    rt = next(iter(kinds))
    if rt[0] not in ("U", "S", "BV", "Bit", "bool", "I"):
        return "rejected", None, {"reason": f"fold yields {rt[0]}"}, info
    info["result_type"] = list(rt)
    try:
        design = dutm.compile_design(render_P(e, rt))
    except render.Rejected as ex:
        msg = f"{ex.exc_type}: {ex.message[:110]}"
        return "rejected", None, {"reason": "run-time design: " + msg}, info
    d = dutm.Dut(design, rng.derive(seed, "C09", "order", idx), "c09", offsets=False, clk=None)
    ptypes = expr.ports_used(e)

    def pins(env):
        # integer ports are driven with Python ints, vectors with bit patterns
        return {n: (expr.sgn(v, 32) if ptypes[n][0] == "I" else v) for n, v in env.items()}

    d.b.start(pins(good[0][0]))
    for env, text, (kk, w, pat) in good:
        d.b.apply(pins(env))
        got = d.get("ok")
        if kk == "I" and got is not None:
            got &= 0xFFFFFFFF
        if got != pat:
            return "accepted", "folded-value-differs-from-run-time-value", {"constant_expression": text, "folded": [kk, w, pat], "run_time_pattern": got, "operands": env}, info
        if kk in ("U", "S", "BV") and d.get("ob") != pat:
            return "accepted", "folded-value-differs-from-run-time-value", {"constant_expression": text, "folded": [kk, w, pat], "run_time_pattern(bitvector view)": d.get("ob"), "operands": env}, info
    info["values"] = len(good)
    return "accepted", None, {}, info


def run_one(seed, idx, tier):
    out = dutm.guarded(lambda: evaluate(seed, idx))
    if len(out) == 2:
        if out[0] == "legality":
            return {"idx": idx, "status": "skipped", "reason": "illegal-vhdl:" + str(out[1].get("rule")), "shape": str(idx), "outcome": "skipped", "info": {}}
        return {"idx": idx, "status": "violation", "vclass": out[0], "detail": out[1], "payload": {"seed": seed, "idx": idx}, "shape": str(idx), "outcome": "accepted", "info": {}}
    outcome, vclass, det, info = out
    res = {"idx": idx, "shape": hashlib.sha256(repr((info["op"], sorted(info["operand_types"].items()), info["class"])).encode()).hexdigest()[:12], "outcome": outcome, "info": info}
    if outcome == "rejected":
        res.update(status="ok", reason=det["reason"])
    elif vclass:
        res.update(status="violation", vclass=vclass, detail=dict(det, expr=info["expr"], operand_types=info["operand_types"]), payload={"seed": seed, "idx": idx})
    else:
        res["status"] = "ok"
    return res


def replay(payload):
    out = dutm.guarded(lambda: evaluate(payload["seed"], payload["idx"]))
    if len(out) == 2:
        return out
    return (out[1] or out[0]), out[2]


def plan(tier):
    return 5000 if tier == "quick" else 300000


def finding_key(r):
    d = r.get("detail") or {}
    info = r.get("info") or {}
    if r.get("vclass") == "folded-value-differs-from-run-time-value" and info:
        ot = info.get("operand_types", {})
        kinds = "+".join(sorted({v[0] for v in ot.values()}))
        wide = any(v[1] > 53 for v in ot.values())
        intop = "int-left" if str(d.get("constant_expression", "")).lstrip("(").startswith(("-", "0", "1", "2", "3", "4", "5", "6", "7", "8", "9")) or "op.truncdiv(" + "(" in "" else ""
        return f"C09:{info.get('op')}:{info.get('class')}:{kinds}:{'wider-than-53-bits' if wide else 'narrow'}"
    return None


ASSUMPTIONS = [
    "thin property: agreement of two replicas (Python-level constant evaluation vs simulated emitted logic); value search is plain seeded generation",
    "a fold-time exception or a rejected run-time design is not explored (the property does not promise that folding succeeds)",
    "type agreement is checked through the declared output type (kind + width) and an additional BitVector output of the folded width",
]


def evidence(results, tier):
    acc = [r for r in results if r.get("outcome") == "accepted" and r["status"] == "ok"]
    ops = {}
    for r in acc:
        ops[r["info"]["op"]] = ops.get(r["info"]["op"], 0) + 1
    rej = {}
    for r in results:
        if r.get("outcome") == "rejected":
            rej[r["reason"][:90]] = rej.get(r["reason"][:90], 0) + 1
    nontriv = {r["shape"] for r in acc}
    sample = None
    for r in acc:
        if r["info"]["class"] in ("div", "arithint") and max(v[1] for v in r["info"]["operand_types"].values()) > 32:
            sample = {"run": r["idx"], "operation": r["info"]["expr"], "operand_types": r["info"]["operand_types"], "folded_result_type": r["info"]["result_type"], "values_compared": r["info"]["values"]}
            break
    return {
        "evaluations": len(results),
        "distinct_nontrivial": len(nontriv),
        "rule": "one evaluation = one (operation, operand types) case with 6 operand valuations: the operation is folded on Python-level constants and, applied to ports held at the same values, simulated in the emitted design; "
        "type, width and bit pattern must agree; distinct = distinct (operation, operand types); non-trivial = both replicas produced a value",
        "samples": [sample] if sample else [],
        "accepted": len(acc),
        "values_compared": sum(r["info"].get("values", 0) for r in acc),
        "fold_exceptions": sum(r["info"].get("fold_exceptions", 0) for r in results if r.get("info")),
        "operation_histogram": dict(sorted(ops.items())),
        "not_explored": dict(sorted(rej.items(), key=lambda kv: -kv[1])[:15]),
        "real_components": ["cohdl Python-level primitive arithmetic (_unsigned.py, _signed.py, _bit_vector.py)", "cohdl compiler + emitted VHDL"],
        "model_components": ["VSIM + ieee re-implementation", "case generator"],
    }
