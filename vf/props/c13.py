"""C13 — parametrised types are canonical and form the documented subtype lattice.

System (B), no clock: the explored nondeterminism is the ORDER OF FIRST USE of the lazily created,
cached classes, failing requests interleaved as faults, and the hash seed.  Each run forks a pristine
interpreter (so "first use" really is first), executes one seeded history (vf/session/typehist.py) and
checks, after every operation, refinement of an identity / lattice / bit-array model.
"""
from __future__ import annotations

import hashlib

from vf.core import rng
from vf.session import pristine, typehist

PROP = "C13"
LEVEL = "exploration"
FN = "vf.session.typehist:run_type_history"
QUALS = ["Signal", "Variable", "Temporary"]
DIRS = ["in", "out", "inout"]
_seed = [1]


def prepare(seed, tier):
    _seed[0] = seed


def n_hist(tier):
    return 400 if tier == "quick" else 20000


def plan(tier):
    # histories + emitted-code view cases (see emitted_views)
    return n_hist(tier) + (600 if tier == "quick" else 6000)


VIEW_OPS = {"view", "slice", "index", "rtindex", "concat"}


def emitted_views(seed, idx, tier, j):
    """the last sentence of the statement at the level of EMITTED code: expressions of the C02 generator that contain views,
    slices or indices are compiled (operands as ports, through named slice-of-slice views and their casts, through a Signal
    constructed inside the process) and simulated; a wrong value there is a view that does not name the storage it aliases.
    Expressions without a view operation are not this property's subject and only counted."""
    from vf.props import c02

    if j % 4 == 3:
        # every fourth case: a C03 program that takes several equally typed views (2-bit slices at different positions) of a
        # value hoisted with cohdl.always
        from vf.props import c03

        for k in range(12):
            prog = c03.gen_program(seed, j * 12 + k, tier)
            names = [nm for c in prog["ctxs"] for nm, _ in c.get("always_vals", [])]
            if names and any(repr(["sl2", nm]).rstrip("]") in repr(prog) for nm in names):
                break
        r = c03.run_one(seed, j * 12 + k, tier)
        hit = bool(names) and r["status"] == "violation" and r.get("vclass") == "mismatch"
        res = {"idx": idx, "shape": "emitted-c03:" + str(r.get("shape")), "stats": {}, "classes": 0, "objects": 0, "nops": 0, "kinds": ["emitted-view-case"] if names else ["emitted-no-view"], "emitted": r["status"]}
        if hit:
            res.update(status="violation", vclass="view-in-emitted-code-reads-other-storage", detail=dict(r["detail"], generator="C03 program with views of a hoisted value"), payload={"emitted": True, "seed": seed, "idx": idx, "tier": tier, "j": j})
        else:
            res["status"] = "ok" if r["status"] in ("ok", "violation") else "skipped"
            if res["status"] == "skipped":
                res["reason"] = "emitted-code case not explored: " + str(r.get("reason") or r["status"])[:80]
        return res
    r = c02.run_one(seed, j, tier)
    ops = set((r.get("info") or {}).get("ops") or [])
    res = {"idx": idx, "shape": "emitted:" + str(r.get("shape")), "stats": {}, "classes": 0, "objects": 0, "nops": 0, "kinds": ["emitted-view-case"] if ops & VIEW_OPS else ["emitted-no-view"], "emitted": r["status"]}
    if r["status"] == "violation" and ops & VIEW_OPS and r.get("vclass") == "wrong-value":
        res.update(status="violation", vclass="view-in-emitted-code-reads-other-storage", detail=r["detail"], payload={"emitted": True, "seed": seed, "idx": idx, "tier": tier, "j": j})
    else:
        res["status"] = "ok" if r["status"] in ("ok", "violation") else "skipped"
        if res["status"] == "skipped":
            res["reason"] = "emitted-code case not explored: " + str(r.get("reason") or r["status"])[:80]
    return res


def gen_width(rs):
    c = rs.below(20)
    if c < 14:
        return rs.range(1, 9)
    if c < 18:
        return rs.choice([12, 16, 17, 31, 32, 33])
    return rs.choice([64, 65, 128])


def gen_plain(rs, widths, qualified=False):
    c = rs.below(16)
    w = rs.choice(widths)
    if c < 3:
        return ["BV", w]
    if c < 6:
        return ["U", w]
    if c < 9:
        return ["S", w]
    if c == 9 and w > 1:  # BitVector[0:0] is an 'upto' declaration (start == 0), outside the statement
        return ["BVs", w - 1, 0]
    if c == 10 and w > 1:
        return [rs.choice(["Us", "Ss"]), w - 1]
    if c == 11:
        return [rs.choice(["BVg", "Ug", "Sg"])]
    if c == 12:
        # bool / int only make sense wrapped in a qualifier (plain they are the Python builtins)
        return [rs.choice(["Bit", "bool", "int"])] if qualified else ["Bit"]
    if c == 13:
        return ["Arr", rs.choice([["U", w], ["S", w], ["BV", w], ["Bit"]]), rs.range(1, 4)]
    if c == 14 and w > 1:
        # ascending range of the same width: other parameters than BitVector[w] / BitVector[w-1:0], hence a distinct class
        return ["BVs", 0, w - 1]
    return rs.choice([["BV", w], ["U", w], ["S", w]])


def gen_bad(rs, widths):
    w = rs.choice(widths)
    c = rs.below(9)
    if c == 0:
        return [rs.choice(["BV", "U", "S"]), 0]
    if c == 1:
        return [rs.choice(["BV", "U", "S"]), -rs.range(1, 5)]
    if c == 2:
        return ["BV", str(w)]
    if c == 3:
        return ["BVstep"]
    if c == 4:
        return ["Qdir", rs.choice(QUALS), rs.choice([["U", w], ["BV", w], ["Bit"]]), rs.choice(DIRS)]
    if c == 5:
        return ["Pnodir", rs.choice([["U", w], ["S", w], ["BV", w], ["Bit"]])]
    if c == 6:
        return ["BVs", w, w - 1 if w > 1 else 3]  # neither start nor stop is 0
    if c == 7:
        return ["Q", rs.choice(QUALS), [rs.choice(["U", "S", "BV"]), 0]]
    return ["P", ["U", -1], rs.choice(DIRS)]


def gen_history(seed, idx, tier):
    rs = rng.Stream(seed, "C13", "history", idx)
    n = rs.range(8, 40 if tier == "quick" else 70)
    # few distinct widths per history so that related classes meet
    widths = sorted({gen_width(rs) for _ in range(rs.range(1, 3))} | {w for w in [rs.range(2, 6)]})
    ops = []
    objs = []  # (name, width, kind, qualkind) of vector-typed views/objects
    nobj = 0
    for _ in range(n):
        c = rs.below(20)
        if c < 4:
            ops.append(["T", gen_plain(rs, widths)])
        elif c < 8:
            t = gen_plain(rs, widths, True)
            ops.append(["T", ["Q", rs.choice(QUALS), t]])
        elif c < 10:
            t = gen_plain(rs, widths, True)
            ops.append(["T", ["P", t, rs.choice(DIRS)]])
        elif c == 10:
            ops.append(["T", ["Qg", rs.choice(QUALS + ["Port"])]])
        elif c < 13:
            ops.append(["bad", gen_bad(rs, widths)])
        elif c < 15 or not objs:
            w = rs.choice([x for x in widths if x <= 33] or [4])
            kind = rs.choice(["BV", "U", "S"])
            q = rs.below(5)
            name = f"o{nobj}"
            nobj += 1
            if q < 2:
                key = ["Q", "Signal", [kind, w]]
                qk = "Signal"
            elif q < 4:
                key = ["Q", "Variable", [kind, w]]
                qk = "Variable"
            else:
                key = ["P", [kind, w], rs.choice(["out", "inout"])]
                qk = "Port"
            ops.append(["obj", name, key, rs.bits(w)])
            objs.append((name, w, kind, qk))
        elif c < 18:
            # half of the views are taken from one of the newest objects, so that views of views of views (a cast of a slice
            # of a cast ...) are common
            src, w, kind, qk = rs.choice(objs[-3:]) if rs.below(2) else rs.choice(objs)
            name = f"o{nobj}"
            nobj += 1
            if kind == "Bit":
                continue
            if w >= 3 and rs.below(5) == 0:
                # a whole chain at once: slice -> .unsigned/.signed -> .bitvector -> bit or slice of that
                lo = rs.below(w - 1)
                hi = rs.range(lo + 1, w - 1)
                cw = hi - lo + 1
                n1, n2, n3, n4 = (f"o{nobj + i}" for i in range(-1, 3))
                nobj += 3
                cast = rs.choice(["unsigned", "signed"])
                ops.append(["view", n1, src, "slice", hi, lo])
                ops.append(["view", n2, n1, cast])
                ops.append(["view", n3, n2, "bitvector"])
                objs += [(n1, cw, "BV", qk), (n2, cw, "U" if cast == "unsigned" else "S", qk), (n3, cw, "BV", qk)]
                if rs.below(2):
                    i = rs.below(cw)
                    ops.append(["view", n4, n3, "index", i])
                    objs.append((n4, 1, "Bit", qk))
                else:
                    l2 = rs.below(cw)
                    h2 = rs.range(l2, cw - 1)
                    ops.append(["view", n4, n3, "slice", h2, l2])
                    objs.append((n4, h2 - l2 + 1, "BV", qk))
                continue
            v = rs.below(8)
            if v < 3 and w >= 1:
                lo = rs.below(w)
                hi = rs.range(lo, w - 1)
                ops.append(["view", name, src, "slice", hi, lo])
                objs.append((name, hi - lo + 1, "BV", qk))
            elif v == 3:
                i = rs.below(w)
                ops.append(["view", name, src, "index", i])
                objs.append((name, 1, "Bit", qk))
            elif v == 4:
                i = rs.below(w)
                ops.append(["view", name, src, "iter", i])
                objs.append((name, 1, "Bit", qk))
            else:
                vop = rs.choice(["unsigned", "signed", "bitvector"])
                ops.append(["view", name, src, vop])
                objs.append((name, w, {"unsigned": "U", "signed": "S", "bitvector": "BV"}[vop], qk))
        else:
            src, w, kind, qk = rs.choice(objs)
            ops.append(["write", src, rs.bits(w)])
    if rs.below(6) == 0:
        # one flood of distinct parametrisations somewhere in the history (drawn last: the rest of the history is as before)
        ops.insert(rs.range(0, len(ops)), ["flood", rs.choice(["Arr", "ArrBit", "U", "S", "BV", "QU", "QArr", "P"]), rs.choice(widths[:1] + [3]), rs.choice([40, 130, 260, 520, 1100])])
    return ops


def hash_seed_for(seed, idx):
    return [0, 1, 2, rng.derive(seed, "C13", "hs", idx % 5) % 4294967295][idx % 4]


def execute(ops, hs, flavour):
    return pristine.get(hs, flavour).call(FN, {"ops": ops})


def run_one(seed, idx, tier):
    if idx >= n_hist(tier):
        return emitted_views(seed, idx, tier, idx - n_hist(tier))
    ops = gen_history(seed, idx, tier)
    hs = hash_seed_for(seed, idx)
    flavour = "core" if idx % 3 else "std"
    out = execute(ops, hs, flavour)
    kinds = sorted({o[0] if o[0] != "view" else "view:" + o[3] for o in ops})
    res = {
        "idx": idx,
        "shape": hashlib.sha256(repr([(o[0], o[1] if o[0] in ("T", "bad") else None) for o in ops]).encode()).hexdigest()[:16],
        "stats": out["stats"],
        "classes": out["classes"],
        "objects": out["objects"],
        "nops": len(ops),
        "kinds": kinds,
    }
    if out["violations"]:
        v = out["violations"][0]
        res.update(status="violation", vclass=v["kind"], detail=v, payload={"ops": ops, "hashseed": hs, "flavour": flavour})
    else:
        res["status"] = "ok"
    return res


def replay(payload):
    if payload.get("emitted"):
        r = emitted_views(payload["seed"], payload["idx"], payload["tier"], payload["j"])
        return (r["vclass"], r["detail"]) if r["status"] == "violation" else ("ok", {})
    out = execute(payload["ops"], payload["hashseed"], payload.get("flavour", "std"))
    if out["violations"]:
        return out["violations"][0]["kind"], out["violations"][0]
    return "ok", {}


def _needed(ops, keep):
    """drop operations whose objects are not defined any more"""
    defined = set()
    out = []
    for i, o in enumerate(ops):
        if i not in keep:
            continue
        if o[0] == "obj":
            defined.add(o[1])
        elif o[0] == "view":
            if o[2] not in defined:
                continue
            defined.add(o[1])
        elif o[0] == "write":
            if o[1] not in defined:
                continue
        out.append(o)
    return out


def shrink(payload, r):
    ops = payload["ops"][: r["detail"]["op_index"] + 1]
    hs, fl = payload["hashseed"], payload.get("flavour", "std")
    vclass = r["vclass"]
    keep = set(range(len(ops)))
    for i in range(len(ops) - 2, -1, -1):
        cand = _needed(ops, keep - {i})
        try:
            out = execute(cand, hs, fl)
        except Exception:
            continue
        if out["violations"] and out["violations"][0]["kind"] == vclass:
            keep.discard(i)
    return {"ops": _needed(ops, keep), "hashseed": hs, "flavour": fl}


def finding_key(r):
    d = r.get("detail") or {}
    if r.get("vclass") == "issubclass-mismatch":
        return f"C13:issubclass:{d.get('a')}:{d.get('b')}"
    return None


ASSUMPTIONS = [
    "model of the lattice is written from the statement: Q[U n]/Q[S n] < Q[BV n], Q[U]/Q[S], Q[BV]; Port[T,d] < Signal[T]; nothing else",
    "objects and views are 'downto' vectors (BitVector[n], BitVector[n-1:0]); ascending ranges BitVector[0:n-1] (n >= 2) are requested as TYPES only: other parameters than "
    "BitVector[n], hence a distinct class below BitVector (nothing else is assumed about them)",
    "Python-level writes through views use .next (signals, ports) and .value (variables)",
    "no clock or concurrency: this is the sequential, model-based end of the technique (order of first use, failing requests, hash seed)",
]


def evidence(results, tier):
    emitted = [r for r in results if "emitted" in r]
    results = [r for r in results if "emitted" not in r]
    ok = [r for r in results if r["status"] in ("ok", "violation")]
    agg = {}
    for r in ok:
        for k, v in r["stats"].items():
            agg[k] = agg.get(k, 0) + v
    nontriv = {r["shape"] for r in ok if r["classes"] >= 6 and r["stats"]["failed_requests"] >= 1 and r["objects"] >= 2}
    kinds = {}
    for r in ok:
        for k in r["kinds"]:
            kinds[k] = kinds.get(k, 0) + 1
    sample = None
    for r in ok:
        if r["classes"] >= 6 and r["objects"] >= 2:
            sample = {"run": r["idx"], "hashseed": hash_seed_for(_seed[0], r["idx"]), "ops": gen_history(_seed[0], r["idx"], tier)[:25]}
            break
    return {
        "evaluations": len(results) + len(emitted),
        "distinct_nontrivial": len(nontriv),
        "emitted_code_view_cases": {"compiled_and_simulated_with_view_operations": len([r for r in emitted if r["kinds"] == ["emitted-view-case"] and r["status"] in ("ok", "violation")]), "without_view_operations(not this property)": len([r for r in emitted if r["kinds"] == ["emitted-no-view"]]), "not_explored": len([r for r in emitted if r["status"] == "skipped"])},
        "rule": "one evaluation = one seeded history of type requests / failing requests / object and view creation / writes through views executed in a fork of a "
        "pristine interpreter (flavour core = only `import cohdl`, std = also cohdl.std) under one of 4 hash seeds, model compared after every operation; "
        "distinct = distinct request sequences; non-trivial = >= 6 classes created, >= 1 failing request, >= 2 objects/views",
        "samples": [sample] if sample else [],
        "class_requests": agg.get("requests", 0),
        "classes_created": agg.get("created", 0),
        "issubclass_pairs_checked": agg.get("pairs_checked", 0),
        "view_checks": agg.get("view_checks", 0),
        "writes_through_views": agg.get("writes", 0),
        "view_references_checked": agg.get("refspec_checked", 0),
        "view_references_skipped_unknown_representation": agg.get("refspec_unknown", 0),
        "faults_fired": {"failing_requests": agg.get("failed_requests", 0), "invalid_requests_unexpectedly_accepted": agg.get("unexpectedly_accepted", 0)},
        "operation_kinds": kinds,
        "real_components": ["cohdl metaclasses and caches (_BitVector, _TypeQualifier, _MetaArray), Span-based views, CPython hash randomisation"],
        "model_components": ["identity / lattice / bit-array model (vf/session/typehist.py)", "pristine fork server"],
    }
