"""./check <property> [--tier quick|thorough] [--seed N] [--replay file] [--runs N] [--jobs N]"""
from __future__ import annotations

import argparse
import importlib
import os
import sys


def main(argv=None):
    ap = argparse.ArgumentParser()
    ap.add_argument("prop")
    ap.add_argument("--tier", default=os.environ.get("VERIF_TIER", "quick"), choices=["quick", "thorough"])
    ap.add_argument("--seed", type=int, default=int(os.environ.get("VERIF_SEED", "1")))
    ap.add_argument("--replay", default=None)
    ap.add_argument("--runs", type=int, default=None)
    ap.add_argument("--jobs", type=int, default=None)
    a, rest = ap.parse_known_args(argv)
    if a.prop == "selftest-determinism":
        from vf.selftest import determinism

        return determinism.main(rest)
    if a.prop == "selftest-conformance":
        from vf.selftest import conformance

        return conformance.main(rest)
    if a.prop == "selftest":
        from vf.selftest import smoke

        return smoke.main()
    try:
        mod = importlib.import_module(f"vf.props.{a.prop.lower()}")
    except ImportError as e:
        print(f"HARNESS-ERROR: no check for {a.prop}: {e}", file=sys.stderr)
        return 2
    from vf.core import harness

    if a.replay:
        return harness.replay_file(mod, a.replay)
    return harness.run_check(mod, a.tier, a.seed, jobs=a.jobs, n_runs=a.runs)


if __name__ == "__main__":
    sys.exit(main())
