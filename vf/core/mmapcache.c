/* LD_PRELOAD helper (performance only): CPython 3.12 allocates and frees its 16 KiB frame
 * data-stack chunks with mmap/munmap whenever the call depth crosses a chunk boundary.  The CoHDL
 * compiler recurses deeply, which causes ~100 mmap/munmap pairs per compilation; in this VM these
 * calls serialise across processes and destroy multi-process scaling.  This shim keeps a small
 * free list of such chunks.  Semantics are unchanged: a recycled chunk is zero-filled like a fresh
 * anonymous mapping. */
#define _GNU_SOURCE
#include <dlfcn.h>
#include <string.h>
#include <sys/mman.h>
#include <stddef.h>

#define CHUNK 16384
#define MAXFREE 256
#define MAXOWN 4096

static void *(*real_mmap)(void *, size_t, int, int, int, off_t);
static int (*real_munmap)(void *, size_t);
static void *freelist[MAXFREE];
static int nfree;
static void *owned[MAXOWN];
static int nowned;

static void init(void) {
  if (!real_mmap) {
    real_mmap = dlsym(RTLD_NEXT, "mmap");
    real_munmap = dlsym(RTLD_NEXT, "munmap");
  }
}

static int is_owned(void *p) {
  for (int i = 0; i < nowned; i++)
    if (owned[i] == p) return 1;
  return 0;
}

void *mmap(void *addr, size_t len, int prot, int flags, int fd, off_t off) {
  init();
  if (addr == NULL && len == CHUNK && prot == (PROT_READ | PROT_WRITE) &&
      (flags & (MAP_PRIVATE | MAP_ANONYMOUS)) == (MAP_PRIVATE | MAP_ANONYMOUS) && fd == -1) {
    if (nfree > 0) {
      void *p = freelist[--nfree];
      memset(p, 0, CHUNK);
      return p;
    }
    void *p = real_mmap(addr, len, prot, flags, fd, off);
    if (p != MAP_FAILED && nowned < MAXOWN) owned[nowned++] = p;
    return p;
  }
  return real_mmap(addr, len, prot, flags, fd, off);
}

int munmap(void *addr, size_t len) {
  init();
  if (len == CHUNK && nfree < MAXFREE && is_owned(addr)) {
    freelist[nfree++] = addr;
    return 0;
  }
  if (len == CHUNK) {
    for (int i = 0; i < nowned; i++)
      if (owned[i] == addr) { owned[i] = owned[--nowned]; break; }
  }
  return real_munmap(addr, len);
}

void *mmap64(void *addr, size_t len, int prot, int flags, int fd, off_t off) {
  return mmap(addr, len, prot, flags, fd, off);
}
