"""Common check driver: fixed number of seeded runs distributed over forked workers, results merged
by run index (outcome independent of worker count), known-findings handling, replay files,
evidence, exit codes (0 held / 1 VIOLATION / 2 harness error)."""
from __future__ import annotations

import faulthandler
import hashlib
import json
import multiprocessing as mp
import os
import sys
import time
import traceback
from concurrent.futures import ProcessPoolExecutor, as_completed

VERIF = os.path.dirname(os.path.dirname(os.path.dirname(os.path.abspath(__file__))))
EVIDENCE_DIR = os.path.join(VERIF, "evidence")
REPLAY_DIR = os.environ.get("VERIF_REPLAY_DIR") or os.path.join(VERIF, "replays")
FINDINGS_FILE = os.path.join(VERIF, "known_findings.json")

_MOD = None


def _init_worker(modname):
    global _MOD
    import importlib

    _MOD = importlib.import_module(modname)
    if hasattr(_MOD, "worker_init"):
        _MOD.worker_init()


def _run_chunk(args):
    seed, tier, idxs, timeout = args
    out = []
    import signal

    def on_alarm(signum, frame):
        raise TimeoutError(f"run exceeded {timeout}s")

    signal.signal(signal.SIGALRM, on_alarm)
    # last-resort watchdog for the whole chunk (one thread per chunk, not per run)
    faulthandler.dump_traceback_later(timeout * (len(idxs) + 1), exit=True)
    try:
        for i in idxs:
            signal.setitimer(signal.ITIMER_REAL, timeout)
            try:
                r = _MOD.run_one(seed, i, tier)
            except (KeyboardInterrupt, SystemExit):
                raise
            except BaseException:
                r = {"idx": i, "status": "harness", "vclass": "exception", "detail": {"traceback": traceback.format_exc()[-3000:]}}
            finally:
                signal.setitimer(signal.ITIMER_REAL, 0)
            out.append(r)
    finally:
        faulthandler.cancel_dump_traceback_later()
    return out


def load_findings():
    if not os.path.exists(FINDINGS_FILE):
        return []
    return json.load(open(FINDINGS_FILE))["findings"]


def match_finding(findings, prop, key):
    for f in findings:
        if f["property"] == prop and f.get("status") == "known" and f["key"] == key:
            return f
    return None


def digest(obj):
    return hashlib.sha256(json.dumps(obj, sort_keys=True, default=str).encode()).hexdigest()


def run_check(mod, tier, seed, jobs=None, n_runs=None, chunk=None, per_run_timeout=120):
    """mod: property module with PROP, LEVEL, plan(tier)->n, run_one(seed, idx, tier)->dict,
    finding_key(result)->str|None, evidence(results, tier)->coverage dict, replay(payload)."""
    t0 = time.time()
    prop = mod.PROP
    n = n_runs if n_runs is not None else mod.plan(tier)
    jobs = jobs or int(os.environ.get("VERIF_JOBS", "0")) or min(16, os.cpu_count() or 1)
    chunk = chunk or max(1, min(50, n // (jobs * 4) or 1))
    chunks = [list(range(i, min(n, i + chunk))) for i in range(0, n, chunk)]
    results = [None] * n
    harness_errors = []
    if hasattr(mod, "prepare"):
        mod.prepare(seed, tier)
    try:
        if jobs == 1:
            _init_worker(mod.__name__)
            for c in chunks:
                for r in _run_chunk((seed, tier, c, per_run_timeout)):
                    results[r["idx"]] = r
        else:
            with ProcessPoolExecutor(max_workers=jobs, mp_context=mp.get_context("fork"), initializer=_init_worker, initargs=(mod.__name__,)) as ex:
                futs = {ex.submit(_run_chunk, (seed, tier, c, per_run_timeout)): c for c in chunks}
                for f in as_completed(futs):
                    try:
                        for r in f.result():
                            results[r["idx"]] = r
                    except BaseException as e:  # worker died (watchdog) -> harness error
                        harness_errors.append(f"worker failed on runs {futs[f][0]}..{futs[f][-1]}: {e!r}")
    except BaseException as e:
        harness_errors.append(f"pool failure: {e!r}")
    if os.environ.get("VERIF_DUMP"):
        with open(os.environ["VERIF_DUMP"], "w") as fh:
            json.dump([{k: v for k, v in r.items() if k != "payload"} for r in results if r is not None], fh, default=str)
    findings = load_findings()
    violations = []
    known = {}
    for r in results:
        if r is None:
            continue
        if r["status"] == "harness":
            harness_errors.append(f"run {r['idx']}: {r.get('vclass')} {json.dumps(r.get('detail'), default=str)[:1500]}")
        elif r["status"] == "violation":
            key = mod.finding_key(r) if hasattr(mod, "finding_key") else None
            f = match_finding(findings, prop, key) if key else None
            if f is not None:
                known.setdefault(key, []).append(r)
            else:
                violations.append(r)
    # minimise + confirm the first few violations by replay, write replay files
    os.makedirs(REPLAY_DIR, exist_ok=True)
    out_lines = []
    confirmed = 0
    for r in violations[:5]:
        payload = r.get("payload")
        if hasattr(mod, "shrink") and payload is not None:
            try:
                payload = mod.shrink(payload, r)
            except Exception:
                payload = r.get("payload")
        rep_ok = True
        if hasattr(mod, "replay") and payload is not None:
            try:
                st, det = mod.replay(payload)
                rep_ok = st == r.get("vclass")
                if not rep_ok:
                    # retry with the unshrunk payload
                    st, det = mod.replay(r["payload"])
                    payload = r["payload"]
                    rep_ok = st == r.get("vclass")
            except Exception:
                rep_ok = False
        if not rep_ok:
            harness_errors.append(f"run {r['idx']}: violation class {r.get('vclass')} did not reproduce on replay")
            continue
        path = os.path.join(REPLAY_DIR, f"{prop}-seed{seed}-run{r['idx']}.json")
        with open(path, "w") as fh:
            json.dump({"property": prop, "tier": tier, "seed": seed, "run": r["idx"], "vclass": r.get("vclass"), "detail": r.get("detail"), "finding_key": mod.finding_key(r) if hasattr(mod, "finding_key") else None, "payload": payload}, fh, indent=1, default=str)
        out_lines.append(f"VIOLATION property={prop} replay={path}")
        print(f"  class={r.get('vclass')} detail={json.dumps(r.get('detail'), default=str)[:600]}")
        confirmed += 1
    for key, rs in sorted(known.items()):
        f = match_finding(findings, prop, key)
        print(f"KNOWN-FINDING: property={prop} {f['what']} (key={key}, {len(rs)} runs)")
    wall = time.time() - t0
    done = [r for r in results if r is not None]
    try:
        cov = mod.evidence(done, tier)
    except Exception:  # the summary must never hide the violations found: report them, flag the summary as a harness error
        import traceback

        cov = {"evaluations": len(done), "evidence_error": traceback.format_exc()[-1200:]}
        harness_errors.append("evidence summary failed: " + traceback.format_exc()[-400:])
    cov.setdefault("evaluations", len(done))
    if not cov.get("samples") and done:
        # always show at least one actual case of this run (whatever the module's own sample filter selected)
        r0 = done[0]
        cov["samples"] = [{k: v for k, v in r0.items() if k not in ("payload", "agg", "stats") and not isinstance(v, (bytes,))}]
    cov["runs_per_hour"] = int(len(done) / wall * 3600) if wall > 0 else 0
    cov["workers"] = jobs
    cov["known_findings_printed"] = sorted(known)
    cov["results_digest"] = digest([(r["idx"], r["status"], r.get("vclass"), r.get("shape")) for r in done])
    # everything a run reports (delta cycles, activations, order permutations, counters ...) except replay payloads:
    # equal for equal (seed, run index, tree) whatever the worker count or PYTHONHASHSEED (selftest/determinism.py)
    cov["deep_digest"] = digest([{k: v for k, v in r.items() if k != "payload"} for r in done])
    ev = {
        "property_id": prop,
        "tier": tier,
        "seed": seed,
        "level": mod.LEVEL,
        "coverage": cov,
        "assumptions": getattr(mod, "ASSUMPTIONS", []),
        "wall_s": round(wall, 2),
        "violations": len(violations),
    }
    if not os.environ.get("VERIF_NO_EVIDENCE"):  # self-tests run partial batches and must not overwrite the evidence
        os.makedirs(EVIDENCE_DIR, exist_ok=True)
        with open(os.path.join(EVIDENCE_DIR, f"{prop}.json"), "w") as fh:
            json.dump(ev, fh, indent=1, default=str)
    for line in out_lines:
        print(line)
    print(f"{prop} {tier} seed={seed}: runs={len(done)} violations={len(violations)} known={sum(len(v) for v in known.values())} harness_errors={len(harness_errors)} wall={wall:.1f}s digest={cov['results_digest'][:16]} deep={cov['deep_digest'][:16]}")
    if harness_errors:
        for h in harness_errors[:10]:
            print("HARNESS-ERROR:", h, file=sys.stderr)
    if out_lines:
        return 1
    if harness_errors or len(done) != n:
        return 2
    if hasattr(mod, "acceptance") and not violations:
        problems = mod.acceptance(cov, tier)
        if problems:
            for p in problems:
                print("HARNESS-ERROR: reach probe:", p, file=sys.stderr)
            return 2
    return 0


def replay_file(mod, path):
    data = json.load(open(path))
    st, det = mod.replay(data["payload"])
    print(f"replay {path}: class={st} detail={json.dumps(det, default=str)[:800]}")
    if st == data.get("vclass"):
        print(f"VIOLATION property={data['property']} replay={path}")
        return 1
    print("violation did not reproduce (property holds on this case now)")
    return 0
