"""SplitMix64 streams.  Every random decision in the machinery is drawn from a named sub-stream
of one integer seed; no other source of randomness is used anywhere."""
from __future__ import annotations

import hashlib

MASK = (1 << 64) - 1


def _mix(z):
    z = (z + 0x9E3779B97F4A7C15) & MASK
    z = ((z ^ (z >> 30)) * 0xBF58476D1CE4E5B9) & MASK
    z = ((z ^ (z >> 27)) * 0x94D049BB133111EB) & MASK
    return z ^ (z >> 31)


def derive(seed, *names):
    """stable 64-bit seed for a named sub-stream (independent of PYTHONHASHSEED)"""
    h = hashlib.sha256(repr((int(seed),) + tuple(str(n) for n in names)).encode()).digest()
    return int.from_bytes(h[:8], "little")


class Stream:
    __slots__ = ("state", "draws")

    def __init__(self, seed, *names):
        self.state = derive(seed, *names) if names else int(seed) & MASK
        self.draws = 0

    def sub(self, *names):
        return Stream(self.state, *names)

    def next(self):
        self.state = (self.state + 0x9E3779B97F4A7C15) & MASK
        z = self.state
        z = ((z ^ (z >> 30)) * 0xBF58476D1CE4E5B9) & MASK
        z = ((z ^ (z >> 27)) * 0x94D049BB133111EB) & MASK
        self.draws += 1
        return z ^ (z >> 31)

    def below(self, n):
        """uniform integer in [0, n)"""
        if n <= 0:
            raise ValueError("below(n) needs n > 0")
        if n == 1:
            return 0
        # rejection sampling to avoid modulo bias
        lim = (1 << 64) - ((1 << 64) % n)
        while True:
            v = self.next()
            if v < lim:
                return v % n

    def range(self, lo, hi):
        """uniform integer in [lo, hi] inclusive"""
        return lo + self.below(hi - lo + 1)

    def chance(self, num, den=100):
        return self.below(den) < num

    def bits(self, n):
        if n <= 0:
            return 0
        v = 0
        got = 0
        while got < n:
            v = (v << 64) | self.next()
            got += 64
        return v & ((1 << n) - 1)

    def choice(self, seq):
        return seq[self.below(len(seq))]

    def weighted(self, pairs):
        """pairs: sequence of (weight, item)"""
        total = sum(w for w, _ in pairs)
        r = self.below(total)
        for w, it in pairs:
            if r < w:
                return it
            r -= w
        raise AssertionError

    def permute(self, items):
        """Fisher-Yates; returns a new list"""
        a = list(items)
        for i in range(len(a) - 1, 0, -1):
            j = self.below(i + 1)
            a[i], a[j] = a[j], a[i]
        return a

    def sample(self, seq, k):
        return self.permute(seq)[:k]
