"""Design pool and planted-error catalogue for the compiler-session properties (C11).

Every design is a complete module source defining entity ``E`` with the common ports
clk, rst, a, b : Bit in; v : Unsigned[4] in; o : Bit out; w : Unsigned[4] out (plus extras).
Marker comments (``#@CTX`` inside a synchronous context, ``#@CORO`` inside a coroutine after an await,
``#@PFX`` inside a ``with std.prefix`` region inside a context, ``#@ARCH`` at architecture level,
``#@SUB`` inside a context of a sub-entity) are the positions at which a real user error can be
planted; the catalogue below lists the errors.  A planted variant is a *fault* only if a fresh
interpreter rejects it (checked when goldens are computed).
"""
from __future__ import annotations

HEADER = """from __future__ import annotations
import cohdl
from cohdl import Bit, BitVector, Unsigned, Signed, Port, Signal, Variable, Temporary, Null, Full, true, false
from cohdl import std

def helper_inc(x):
    return x + 1

def helper_sel(c, x, y):
    return x if c else y

"""

PORTS = """    clk = Port.input(Bit)
    rst = Port.input(Bit)
    a = Port.input(Bit)
    b = Port.input(Bit)
    v = Port.input(Unsigned[4])
    o = Port.output(Bit, default=False)
    w = Port.output(Unsigned[4], default=0)
"""

DESIGNS = {}


def design(name, body, extra_ports="", pre=""):
    DESIGNS[name] = HEADER + pre + "class E(cohdl.Entity):\n" + PORTS + extra_ports + body


design(
    "coro_simple",
    """
    def architecture(self):
        @std.sequential(std.Clock(self.clk), std.Reset(self.rst))
        async def proc():
            self.w <<= self.v
            await self.a
            #@CORO
            self.o <<= self.b
            while self.b:
                self.w <<= self.w + 1
            await true
""",
)

design(
    "coro_sub",
    """
    def architecture(self):
        cnt = Variable[Unsigned[4]](3)

        async def sub(limit):
            nonlocal cnt
            while cnt < limit:
                cnt @= cnt + 1
                await self.a
                if self.b:
                    continue
                else:
                    break
            self.w <<= cnt

        @std.sequential(std.Clock(self.clk), std.Reset(self.rst))
        async def proc():
            nonlocal cnt
            self.o <<= self.a
            await sub(9)
            #@CORO
            cnt @= 0
            await self.b
""",
)

design(
    "seq_prefix",
    """
    def architecture(self):
        with std.prefix("arch"):
            s0 = Signal[Unsigned[4]](0, name=std.name("s0"))

        @std.sequential(std.Clock(self.clk))
        def proc():
            #@CTX
            with std.prefix("pfx"):
                t = Signal[Unsigned[4]](name=std.name("sig"))
                t <<= self.v
                #@PFX
                s0.next = t + 1
            self.w <<= s0
            self.o <<= self.a & self.b
""",
)

design(
    "seq_prefix2",
    """
    def architecture(self):
        @std.sequential(std.Clock(self.clk), std.Reset(self.rst))
        def proc():
            p = std.prefix("px")
            x = Signal[Bit](name=p.name("x"))
            with p:
                y = Signal[Bit](name=std.name("y"))
                #@PFX
                y <<= self.a
            x <<= y | self.b
            self.o <<= x
            self.w <<= helper_inc(self.v)
""",
)

design(
    "ctx_wait_duration",
    """
    def architecture(self):
        clk = std.Clock(self.clk, frequency=std.MHz(100))
        ctx = std.SequentialContext(clk, std.Reset(self.rst))

        @ctx
        async def proc():
            await self.a
            self.o <<= True
            await std.wait_for(std.ns(50))
            #@CORO
            self.o <<= False
            self.w <<= self.v
""",
)

design(
    "hier_twice",
    """
    def architecture(self):
        x = Signal[Unsigned[4]]()
        y = Signal[Unsigned[4]]()
        Inc(inp=self.v, outp=x)
        Inc(inp=x, outp=y)
        Mid(inp=y, outp=self.w)

        @std.concurrent
        def logic():
            #@CTX
            self.o <<= self.a ^ self.b
""",
    pre="""class Inc(cohdl.Entity):
    inp = Port.input(Unsigned[4])
    outp = Port.output(Unsigned[4])

    def architecture(self):
        @std.concurrent
        def logic():
            #@SUB
            self.outp <<= self.inp + 1


class Mid(cohdl.Entity):
    inp = Port.input(Unsigned[4])
    outp = Port.output(Unsigned[4])

    def architecture(self):
        t = Signal[Unsigned[4]]()
        Inc(inp=self.inp, outp=t)

        @std.concurrent
        def logic():
            self.outp <<= t + 2


""",
)

design(
    "record_enum",
    """
    def architecture(self):
        r = Signal[Rec](a=False, n=0)
        st = Signal[Color](Color.red)

        @std.sequential(std.Clock(self.clk), std.Reset(self.rst))
        def proc():
            #@CTX
            r.a <<= self.a
            r.n <<= self.v
            if st == Color.red:
                st.next = Color.green
            elif st == Color.green:
                st.next = Color.blue
            else:
                st.next = Color.red

        @std.concurrent
        def logic():
            self.o <<= r.a
            self.w <<= r.n if st == Color.blue else Null
""",
    pre="""class Rec(std.Record):
    a: Bit
    n: Unsigned[4]


class Color(std.Enum[BitVector[2]]):
    red = std.Enum("00")
    green = std.Enum("01")
    blue = std.Enum("10")


""",
)

design(
    "shared_helper_a",
    """
    def architecture(self):
        @std.sequential(std.Clock(self.clk))
        def proc():
            #@CTX
            self.w <<= helper_sel(self.a, helper_inc(self.v), self.v)
            self.o <<= helper_sel(self.b, self.a, self.b)
""",
)

design(
    "shared_helper_b",
    """
    def architecture(self):
        @std.concurrent
        def logic():
            self.w <<= helper_inc(helper_inc(self.v))
            self.o <<= helper_sel(self.a, self.b, self.a)
""",
)

design(
    "alias_names",
    """
    def architecture(self):
        first = Signal[Unsigned[4]](0)
        second = first
        third = second

        @std.sequential(std.Clock(self.clk))
        def proc():
            #@CTX
            third.next = second + self.v
            self.w <<= first

        @std.concurrent
        def logic():
            self.o <<= self.a
""",
)

design(
    "fifo_delays",
    """
    def architecture(self):
        clk = std.Clock(self.clk)
        ctx = std.SequentialContext(clk, std.Reset(self.rst))
        fifo = std.Fifo[Unsigned[4], 4](delay=1)
        flag = std.SyncFlag(tx_delay=1, rx_delay=2)

        @ctx
        def producer():
            #@CTX
            if self.a and not fifo.full():
                fifo.push(self.v)
            if self.b and flag.is_clear():
                flag.set()

        @ctx
        def consumer():
            if not fifo.empty():
                self.w <<= fifo.pop()
            if flag.is_set():
                flag.clear()
                self.o <<= ~self.o
""",
)

design(
    "concurrent_select",
    """
    def architecture(self):
        mem = Signal[cohdl.Array[Unsigned[4], 4]]()

        @std.sequential(std.Clock(self.clk))
        def proc():
            #@CTX
            mem[self.v[1:0].unsigned] <<= self.v

        @std.concurrent
        def logic():
            self.w <<= cohdl.select_with(
                self.v[3:2],
                {
                    "00": mem[0],
                    "01": mem[1],
                    "10": mem[2],
                },
                default=mem[3],
            )
            self.o <<= self.a if self.b else ~self.a
""",
)

design(
    "match_for",
    """
    def architecture(self):
        @std.sequential(std.Clock(self.clk), std.Reset(self.rst))
        def proc():
            #@CTX
            match self.v:
                case 0:
                    self.w <<= 1
                case 1:
                    self.w <<= 3
                case _:
                    self.w <<= self.v
            for i in range(4):
                if self.v[i]:
                    self.o <<= self.a
                    break
            else:
                self.o <<= self.b
""",
)

design(
    "two_coros",
    """
    def architecture(self):
        flag = Signal[Bit](False)

        @std.sequential(std.Clock(self.clk), std.Reset(self.rst))
        async def first():
            await self.a
            flag.next = True
            await true
            #@CORO
            flag.next = False

        @std.sequential(std.Clock(self.clk), std.Reset(self.rst))
        async def second():
            await flag
            self.w <<= self.v
            self.o <<= self.b
            await std.wait_for(3)
""",
)

# the std context wrappers with their rarely used options (comment / attributes / step_cond / on_reset / capture_lazy,
# concurrent_assign / concurrent_eval helpers): every option value must stay with the design that gave it
design(
    "ctx_options_a",
    """
    def architecture(self):
        s = Signal[Unsigned[4]](0)

        @std.concurrent(comment="A: first concurrent block")
        def logic_a():
            s.next = self.v + 1

        @std.concurrent(attributes={"comment": "A: attributes dict"})
        def logic_b():
            self.o <<= self.a & self.b

        def on_rst():
            self.w <<= 3

        @std.sequential(std.Clock(self.clk), std.Reset(self.rst), comment="A: clocked", step_cond=lambda: self.a, on_reset=on_rst, attributes={"zero_init_temporaries": True})
        def proc():
            #@CTX
            self.w <<= s
""",
)

design(
    "ctx_options_b",
    """
    def architecture(self):
        s = Signal[Unsigned[4]](0)
        std.concurrent_assign(s, self.v)

        @std.concurrent(comment="B: only block with a comment", capture_lazy=True)
        def logic_a():
            self.o <<= self.a

        @std.concurrent
        def logic_plain():
            pass

        @std.sequential(std.Clock(self.clk), comment="B: clocked")
        async def proc():
            await self.b
            #@CORO
            self.w <<= helper_sel(self.a, s, self.v)
""",
)

design(
    "dynamic_ports",
    """
    def architecture(self):
        led = std.add_entity_port(self, Port.output(Bit, name="led0"))
        sel = std.add_entity_port(self, Port.input(Unsigned[2], name="sel"))

        @std.sequential(std.Clock(self.clk))
        def proc():
            #@CTX
            led.next = self.v[sel]
            self.w <<= self.v
            self.o <<= self.a
""",
)

# helper functions that live only while architecture() runs: compile-time helpers (cohdl.pyeval) that nothing captures, and
# plain local functions called from synthesizable code (whether a function is evaluated by Python or compiled is a property of
# the function object, not of its address)
design(
    "pyeval_local",
    """
    def architecture(self):
        widths = []
        for k in range(10):
            @cohdl.pyeval
            def pick_width(n=k):
                return 1 + n % 3
            widths.append(pick_width())

        @std.sequential(std.Clock(self.clk))
        def proc():
            #@CTX
            self.w <<= self.v + widths[3]
            self.o <<= self.a
""",
)

design(
    "local_plain_helpers",
    """
    def architecture(self):
        def inc(x):
            return x + 1

        def dec(x):
            return x - 1

        def sel(c, x, y):
            return x if c else y

        def twice(x):
            return inc(inc(x))

        def both(x):
            return dec(twice(x))

        def keep(x):
            return x

        @std.sequential(std.Clock(self.clk))
        def proc():
            self.w <<= sel(self.a, both(self.v), keep(dec(self.v)))
            self.o <<= self.b

        @std.concurrent
        def logic():
            pass
""",
)

# ascending ranges next to descending ones of the same width (the other designs use descending vectors of width 4)
design(
    "vec_ascending",
    """
    def architecture(self):
        up = Signal[BitVector[0:10]]("01100110011")

        @std.sequential(std.Clock(self.clk))
        def proc():
            #@CTX
            up[0] <<= self.a
            up[10] <<= self.b
            self.o <<= up[1] ^ up[0]
            self.w <<= self.v
""",
)

design(
    "vec_descending",
    """
    def architecture(self):
        dn = Signal[BitVector[10:0]]("01100110011")

        @std.sequential(std.Clock(self.clk))
        def proc():
            dn[0] <<= self.a
            dn[10] <<= self.b
            self.o <<= dn[1] ^ dn[0]
            self.w <<= self.v
""",
)

design(
    "explicit_sensitivity",
    # a core sequential context that names its sensitivity list itself, in TWO calls (the second adds several signals)
    """
    def architecture(self):
        en = Signal[Bit](False, name="en")
        ld = Signal[Bit](False, name="ld")
        sel = Signal[Bit](False, name="sel")
        inc = Signal[Bit](False, name="inc")
        clr = Signal[Bit](False, name="clr")
        hold = Signal[Bit](False, name="hold")

        @cohdl.sequential_context
        def proc():
            cohdl.sensitivity.list(self.clk, self.rst)
            cohdl.sensitivity.list(en, ld, sel, inc, clr, hold)
            if self.rst:
                self.w <<= 0
            elif cohdl.rising_edge(self.clk):
                #@CTX
                if (en & ld) | sel:
                    self.w <<= self.v
                elif inc & ~hold:
                    self.w <<= self.w + 1
                elif clr:
                    self.w <<= 0

        @std.concurrent
        def enables():
            en.next = self.a
            ld.next = self.b
            sel.next = self.a & self.b
            inc.next = self.a ^ self.b
            clr.next = ~self.a
            hold.next = ~self.b
""",
)

design(
    "current_ctx_outside",
    # a concurrent context, converted FIRST, uses a delayed flag: std consults SequentialContext.current() there and
    # finds none; the LAST converted context is a coroutine of a std.sequential context
    """
    def architecture(self):
        clk = std.Clock(self.clk)
        flag = std.SyncFlag(tx_delay=1, rx_delay=1)

        @std.concurrent
        def views():
            self.o <<= flag.is_set()

        @std.sequential(clk)
        def producer():
            #@CTX
            if self.a and flag.is_clear():
                flag.set()

        @std.sequential(clk)
        async def consumer():
            await flag.receive()
            #@CORO
            self.w <<= self.v
""",
)

# designs that are invalid only because of context: must be rejected in a fresh interpreter
CONTEXT_INVALID = {}
CONTEXT_INVALID["wait_duration_no_freq"] = (
    HEADER
    + "class E(cohdl.Entity):\n"
    + PORTS
    + """
    def architecture(self):
        @std.sequential(std.Clock(self.clk))
        async def proc():
            await self.a
            await std.wait_for(std.ns(50))
            self.o <<= True
"""
)

# planted errors: name -> (marker kinds it applies to, lines)
ERRORS = {
    "bit_from_vector": (("CTX", "CORO", "PFX", "SUB"), ["self.o <<= self.v" if False else "BITTARGET <<= VECSRC"]),
    "width_mismatch": (("CTX", "CORO", "PFX", "SUB"), ["VECTARGET <<= VECSRC @ VECSRC"]),
    "assert_false": (("CTX", "CORO", "PFX", "SUB"), ["assert False, 'planted'"]),
    "bad_call": (("CTX", "CORO", "PFX", "SUB"), ["helper_inc(1, 2, 3)"]),
    "unsupported_try": (("CTX", "CORO", "PFX"), ["try:", "    pass", "finally:", "    pass"]),
    "write_input": (("CTX", "CORO", "PFX", "SUB"), ["INPUT <<= INPUT"]),
    "uninit_temp": (("CTX", "PFX", "SUB"), ["if INPUTBIT:", "    tmp_planted = VECSRC + 1", "VECTARGET <<= tmp_planted"]),
    "continue_first_state": (("CORO",), ["while INPUTBIT:", "    continue"]),
    "temp_across_states": (("CORO",), ["tmp_planted = VECSRC + 1", "await INPUTBIT", "VECTARGET <<= tmp_planted"]),
    "await_in_while_cond": (("CORO",), ["while (await INPUTBIT):", "    pass"]),
    "second_driver": (("ARCHX",), []),
    "variable_in_concurrent": (("ARCHX",), []),
}

ARCH_ERRORS = {
    "second_driver": ["@std.concurrent", "def planted_driver():", "    self.w <<= self.v"],
    "variable_in_concurrent": ["pv = Variable[Bit](False)", "@std.concurrent", "def planted_var():", "    pv.value = self.a"],
    "port_mismatch": ["class _Planted(cohdl.Entity):", "    p = Port.input(Bit)", "    def architecture(self):", "        pass", "_Planted(p=self.v)"],
}

SUBST_TOP = {"BITTARGET": "self.o", "VECSRC": "self.v", "VECTARGET": "self.w", "INPUT": "self.a", "INPUTBIT": "self.b"}
SUBST_SUB = {"BITTARGET": "self.outp[0]", "VECSRC": "self.inp", "VECTARGET": "self.outp", "INPUT": "self.inp", "INPUTBIT": "self.inp[0]"}


# designs compiled from the SAME class object again after a rejected attempt: a module-level flag guards a real user
# error at architecture level ("arch"), inside a context ("ctx"), inside a coroutine after an await ("coro") or inside a
# sub-entity ("sub"); the history rejects once with the flag set, clears it and compiles the same class twice
RETRY = {}


def retry(name, body, pre=""):
    RETRY[name] = HEADER + "FLAGS = {'bad': True}\n\n" + pre + "class E(cohdl.Entity):\n" + PORTS + body


retry(
    "retry_arch",
    """
    def architecture(self):
        s0 = Signal[Unsigned[4]](0)
        if FLAGS['bad']:
            assert False, 'planted at architecture level'

        @std.sequential(std.Clock(self.clk))
        def proc():
            s0.next = self.v + 1
            self.w <<= s0
            self.o <<= self.a
""",
)
retry(
    "retry_arch_after_ctx",
    """
    def architecture(self):
        s0 = Signal[Unsigned[4]](0)

        @std.sequential(std.Clock(self.clk))
        def proc():
            s0.next = self.v + 1
            self.w <<= s0

        @std.concurrent
        def logic():
            self.o <<= self.a & self.b

        if FLAGS['bad']:
            Signal[Bit](3)
""",
)
retry(
    "retry_dynamic_port",
    """
    def architecture(self):
        # a port added while the architecture is elaborated; the rejection comes after it
        led = std.add_entity_port(self, Port.output(Bit, name="led0"))
        if FLAGS['bad']:
            assert False, 'planted after a dynamic port was added'
        extra = std.add_entity_port(self, Port.input(Bit, name="sel1"))

        @std.sequential(std.Clock(self.clk))
        def proc():
            led.next = self.a & extra
            self.w <<= self.v
            self.o <<= self.b
""",
)
retry(
    "retry_module_ctx",
    """
    def architecture(self):
        REF['e'] = self
        # context bodies that are persistent MODULE-LEVEL functions (the same function objects in every compilation of this
        # class), registered with the core API; they bind local names
        cohdl.concurrent_context(mod_logic)
        cohdl.sequential_context(mod_proc)

        @std.concurrent
        def guarded():
            if FLAGS['bad']:
                self.o <<= self.v
            else:
                self.o <<= self.a
""",
    pre='''REF = {}

def mod_logic():
    e = REF['e']
    x = e.v + 1
    y = x + 1
    e.w <<= y

def mod_proc():
    e = REF['e']
    if cohdl.rising_edge(e.clk):
        t = e.b
        u = ~t

''',
)
retry(
    "retry_ctx",
    """
    def architecture(self):
        @std.sequential(std.Clock(self.clk), std.Reset(self.rst))
        def proc():
            if FLAGS['bad']:
                self.o <<= self.v
            with std.prefix("px"):
                y = Signal[Bit](name=std.name("y"))
                y <<= self.a
            self.o <<= y
            self.w <<= helper_inc(self.v)
""",
)
retry(
    "retry_coro",
    """
    def architecture(self):
        @std.sequential(std.Clock(self.clk), std.Reset(self.rst))
        async def proc():
            self.w <<= self.v
            await self.a
            if FLAGS['bad']:
                while self.b:
                    continue
            self.o <<= self.b
            await true
""",
)
retry(
    "retry_sub",
    """
    def architecture(self):
        x = Signal[Unsigned[4]]()
        RInc(inp=self.v, outp=x)
        RInc(inp=x, outp=self.w)

        @std.concurrent
        def logic():
            self.o <<= self.a
""",
    pre="""class RInc(cohdl.Entity):
    inp = Port.input(Unsigned[4])
    outp = Port.output(Unsigned[4])

    def architecture(self):
        @std.concurrent
        def logic():
            if FLAGS['bad']:
                self.inp <<= 1
            self.outp <<= self.inp + 1


""",
)


def markers(src):
    out = []
    for i, line in enumerate(src.split("\n")):
        s = line.strip()
        if s.startswith("#@"):
            out.append((i, s[2:], len(line) - len(line.lstrip())))
    return out


def strip_markers(src):
    return "\n".join(l for l in src.split("\n") if not l.strip().startswith("#@"))


def plant(src, marker_index, err_name):
    """replace the marker_index-th marker with the error's lines"""
    ms = markers(src)
    i, kind, ind = ms[marker_index]
    kinds, lines = ERRORS[err_name]
    assert kind in kinds
    sub = SUBST_SUB if kind == "SUB" else SUBST_TOP
    new = []
    for l in lines:
        for k, v in sorted(sub.items(), key=lambda kv: -len(kv[0])):
            l = l.replace(k, v)
        new.append(" " * ind + l)
    parts = src.split("\n")
    parts[i : i + 1] = new
    return strip_markers("\n".join(parts))


def plant_arch(src, err_name):
    """append architecture-level error lines at the end of E.architecture (8 spaces)"""
    lines = ARCH_ERRORS[err_name]
    s = strip_markers(src).rstrip("\n")
    return s + "\n" + "\n".join("        " + l for l in lines) + "\n"


def all_valid():
    return {k: strip_markers(v) for k, v in DESIGNS.items()}


def all_planted():
    """-> {key: (base design, source)}"""
    out = {}
    for name, src in DESIGNS.items():
        for mi, (_, kind, _) in enumerate(markers(src)):
            for en, (kinds, lines) in ERRORS.items():
                if kind in kinds and lines:
                    out[f"{name}/{kind}{mi}/{en}"] = (name, plant(src, mi, en))
        for en in ARCH_ERRORS:
            out[f"{name}/ARCH/{en}"] = (name, plant_arch(src, en))
    for k, v in CONTEXT_INVALID.items():
        out[f"ctxinvalid/{k}"] = (None, v)
    return out
