"""Generator / renderer for sequential + concurrent context bodies — workload of C03 (and C08 dynamic half).

Objects (fixed):   inputs  a b c : Bit;  d u : Unsigned[4]   (no port is called e: entity E + port e is a known C06 finding)
                   outputs o0..o3 : Unsigned[4] (default 0), f0 f1 : Bit (default False), pz : Unsigned[4] (default 5, push only),
                           mr : Unsigned[4]  (= mem[u[1:0]], concurrent read port of the array)
                   signals s0 s1 : Unsigned[4] (default 0), g0 : Bit (default False), mem : Array[Unsigned[4], 4] (default Null)
                   variables v0 v1 : Unsigned[4], w0 : Bit   (owned by the clocked context)
Program (JSON-able):
  prog = {"edge", "ctxs": [ctx...], "var_init": {...}}
  ctx  = {"kind": "clocked"|"concurrent"|"comb", "name", "owns": [objects written here], "body": [stmt...], "always": [asg...], "always_vals": [[tname, expr]...]}
  stmt = ["asg", target, expr, form] | ["var", name, expr, form] | ["push", expr, form] | ["let", tname, expr]
       | ["if", [[cond, block]...], else|None] | ["match", subj, [[k, block]...], default|None]
       | ["forbit", vec, n, [block_i ...] (i available as constant), else|None]
  target = ["sig", name] | ["slice", name, hi, lo] | ["bit", name, i] | ["elem", idxexpr]
  expr (Unsigned[4]) = ["k", n] | ["in", n] | ["sig", n] | ["var", n] | ["t", n] | ["i"] | [op, x, y] op in add sub and or xor
                     | ["ite", cond, x, y] | ["pick", cond, x, y, kw] | ["sl2", name, lo] (2-bit slice zero-extended via resize)
  bexpr (Bit)        = ["in", n] | ["sig", n] | ["var", "w0"] | ["bnot", b] | ["band", b, b] | ["bor", b, b] | ["bxor", b, b] | ["bitof", name, i]
  cond               = ["b", bexpr] | ["not", c] | ["and", c, c] | ["or", c, c] | ["eq", x, y] | ["ne", x, y] | ["lt", x, y] | ["ge", x, k]
"""
from __future__ import annotations

VEC_OUT = ["o0", "o1", "o2", "o3"]
BIT_OUT = ["f0", "f1"]
VEC_SIG = ["s0", "s1"]
BIT_SIG = ["g0"]
DEFAULTS = {"o0": 0, "o1": 0, "o2": 0, "o3": 0, "f0": 0, "f1": 0, "pz": 5, "s0": 0, "s1": 0, "g0": 0}
M = 15


class Gen:
    def __init__(self, rs, big=False):
        self.rs = rs
        self.big = big
        self.nt = 0
        self.calls = 0

    # ---------------- expressions ------------------------------------------------------------
    def vatom(self, env):
        rs = self.rs
        pool = [["in", "d"], ["in", "u"]] + [["sig", n] for n in env["read_vec"]] + [["var", n] for n in env["vars"]] + [["t", n] for n in env["temps"]]
        if env.get("i"):
            pool.append(["sl2", rs.choice(["d", "u"]), rs.choice([0, 1, 2])])
        return rs.choice(pool)

    def vexpr(self, env, depth=0):
        rs = self.rs
        c = rs.below(12 if depth < 2 else 6)
        if c < 5:
            return self.vatom(env)
        if c == 5:
            # (also 2-bit slices of a value hoisted with cohdl.always: several equally typed views of one such value at
            # different positions)
            return ["sl2", rs.choice(["d", "u"] + env.get("atemps", []) * 2), rs.choice([0, 1, 2])]
        if c < 9:
            op = rs.choice(["add", "sub", "and", "or", "xor"])
            # integer literals only as the right operand of + / - (bitwise operators do not take ints)
            right = ["k", rs.below(16)] if (rs.below(3) == 0 and op in ("add", "sub")) else self.vexpr(env, depth + 1)
            return [op, self.vexprh(env, depth + 1), right]
        if c == 9:
            return ["ite", self.cond(env, depth + 1), self.vexprh(env, depth + 1), self.vexprh(env, depth + 1)]
        if c == 10 and env.get("calls_ok") and self.calls < 2 and rs.below(2):
            # a helper whose for-loop ends in return (first set bit wins), with a fall-through return after the loop
            self.calls += 1
            return ["prio", rs.choice(["d", "u"]), self.vatom(env), self.vatom(env), rs.below(2)]
        if c == 10 and env.get("calls_ok") and self.calls < 2:
            self.calls += 1
            return ["pick", self.cond(env, depth + 1), self.vatom(env), self.vatom(env), rs.below(2)]
        return self.vatom(env)

    def vexprh(self, env, depth):
        """an expression whose rendered form is a hardware value (never a bare int)"""
        return self.vexpr(env, depth)

    def batom(self, env):
        rs = self.rs
        pool = [["in", "a"], ["in", "b"], ["in", "c"]] + [["sig", n] for n in env["read_bit"]] + ([["var", "w0"]] if "w0" in env["vars_bit"] else [])
        pool.append(["bitof", rs.choice(["d", "u"]), rs.below(4)])
        # a bit of an input vector selected by a run-time index (2 bits of an input): the index is an intermediate value
        # of its own, also when the expression is hoisted out of the process with cohdl.always
        pool.append(["rtbit", rs.choice(["d", "u"]), rs.choice(["d", "u"]), rs.below(3)])
        return rs.choice(pool)

    def bexpr(self, env, depth=0):
        rs = self.rs
        c = rs.below(8 if depth < 2 else 3)
        if c < 3:
            return self.batom(env)
        if c == 3:
            return ["bnot", self.bexpr(env, depth + 1)]
        return [rs.choice(["band", "bor", "bxor"]), self.bexpr(env, depth + 1), self.bexpr(env, depth + 1)]

    def cond(self, env, depth=0):
        rs = self.rs
        c = rs.below(10 if depth < 2 else 5)
        if c < 3:
            if env.get("btemps") and rs.below(3) == 0:
                return ["tb", rs.choice(env["btemps"])]
            if "w0" in env.get("vars_bit", []) and rs.below(6) == 0:
                return ["vb", "b0"]
            return ["b", self.batom(env)]
        if c == 3:
            return [rs.choice(["eq", "ne"]), self.vatom(env), ["k", rs.below(16)]]
        if c == 4:
            return [rs.choice(["lt", "ge"]), self.vatom(env), ["k", rs.range(1, 15)]]
        if c == 5:
            return ["eq", self.vatom(env), self.vatom(env)]
        if c == 6 and env.get("calls_ok") and self.calls < 2 and rs.below(2):
            # a helper with two return paths, each returning a different computed boolean (the merged result is one value)
            self.calls += 1
            return ["cmpsel", self.cond(env, depth + 1), self.vatom(env), self.vatom(env)]
        if c == 6 and rs.below(3) == 0 and env["kind"] != "concurrent":
            # an if-expression over conditions whose else operand is an explicit bool(...) cast (a cast the compiler removes
            # again: the operand has to follow the replacement)
            return ["cite", self.cond(env, depth + 1), self.cond(env, depth + 1), self.cond(env, depth + 1)]
        if c == 6:
            return ["not", self.cond(env, depth + 1)]
        if c < 9:
            return [rs.choice(["and", "or"]), self.cond(env, depth + 1), self.cond(env, depth + 1)]
        return ["b", self.bexpr(env, depth + 1)]

    # ---------------- statements -------------------------------------------------------------
    def target(self, env):
        rs = self.rs
        owned_vec = [n for n in env["owns"] if n in VEC_OUT + VEC_SIG]
        owned_bit = [n for n in env["owns"] if n in BIT_OUT + BIT_SIG]
        opts = []
        if owned_vec:
            opts += [(6, "sig"), (2, "slice"), (2, "bit")]
        if owned_bit:
            opts += [(3, "bsig")]
        if "mem" in env["owns"]:
            opts += [(2, "elem")]
        k = rs.weighted(opts)
        if k == "sig":
            return ["sig", rs.choice(owned_vec)], "vec"
        if k == "slice":
            lo = rs.below(3)
            return ["slice", rs.choice(owned_vec), lo + 1, lo], "vec2"
        if k == "bit":
            return ["bit", rs.choice(owned_vec), rs.below(4)], "bit"
        if k == "bsig":
            return ["sig", rs.choice(owned_bit)], "bit"
        # the index is always a 2-bit value (4 elements): a slice of an input or of a variable (captured when executed)
        src = rs.choice(["d", "u"] + env["vars"])
        return ["elem", ["idx2", src, rs.choice([0, 1, 2])]], "vec"

    def rhs(self, env, kind):
        rs = self.rs
        if kind == "vec":
            if rs.below(6) == 0:
                return ["k", rs.below(16)]
            return self.vexpr(env)
        if kind == "vec2":
            return ["raw2", rs.choice(["d", "u"] + env["read_vec"][:0]), rs.choice([0, 1, 2])]
        if env.get("btemps") and rs.below(4) == 0:
            return ["cv", ["tb", rs.choice(env["btemps"])]]  # a bool snapshot assigned to a Bit target
        return ["bv", self.bexpr(env)]

    def simple(self, env):
        rs = self.rs
        w = [(10, "asg")]
        if env["kind"] == "clocked":
            if env["vars"]:
                w += [(4, "var")]
            if "w0" in env["vars_bit"]:
                w += [(1, "varb"), (2, "varbool"), (2, "snap")]
            if "pz" in env["owns"]:
                w += [(2, "push")]
            if env["vars"] and [n for n in env["owns"] if n in VEC_OUT + VEC_SIG]:
                w += [(2, "rdptr")]
            w += [(2, "let")]
        k = rs.weighted(w)
        if k == "asg":
            t, kind = self.target(env)
            envr = env
            early = env.get("comb_early")
            if early and t[1] != early and t[0] in ("sig", "slice", "bit"):
                # an unclocked sequential context may read back a signal it drives itself (assigned only from inputs and
                # registered objects, never guarded by itself): the process must then be sensitive to it
                envr = dict(env, read_vec=env["read_vec"] + [early])
            return ["asg", t, self.rhs(envr, kind), rs.below(2) if t[0] == "sig" else 0]
        if k == "var":
            v = rs.choice(env["vars"])
            e = ["add", ["var", v], ["k", 1]] if rs.below(3) == 0 else self.vexpr(env)
            return ["var", v, e, rs.below(2)]
        if k == "varb":
            return ["var", "w0", ["bv", self.bexpr(env)], rs.below(2)]
        if k == "varbool":
            # Variable[bool]: assigned from a condition, changes immediately
            return ["var", "b0", ["cv", self.cond(env, 1)], rs.below(2)]
        if k == "snap":
            # t = bool(b0): a snapshot of the variable's current value (unlike `t = v0`, which only binds another name)
            self.nt += 1
            name = f"t{self.nt}"
            env.setdefault("btemps", []).append(name)
            return ["snap", name, "b0"]
        if k == "push":
            # (half of the pushes carry a Python literal: several push sites of one signal, each with its own literal)
            return ["push", ["k", rs.below(16)] if rs.below(2) else self.vexpr(env), rs.below(3)]
        if k == "rdptr":
            # read-pointer idiom: an array element selected by a bare index variable is bound to a name, the variable is
            # advanced, and only then the element is used (program order: the element of the OLD index)
            self.nt += 1
            return ["rdptr", f"t{self.nt}", rs.choice([n for n in env["owns"] if n in VEC_OUT + VEC_SIG]), rs.range(1, 3)]
        self.nt += 1
        name = f"t{self.nt}"
        st = ["let", name, self.vexprh(env, 1)]
        env["temps"].append(name)
        return st

    def block(self, env, depth, budget):
        rs = self.rs
        out = []
        n = rs.range(1, 4)
        ntemps = len(env["temps"])
        for _ in range(n):
            if budget[0] <= 0:
                break
            budget[0] -= 1
            w = [(12, "simple")]
            if env["kind"] != "concurrent" and depth < (3 if self.big else 2):
                w += [(5, "if"), (2, "match"), (2, "forbit")]
            k = rs.weighted(w)
            if k == "simple":
                st = self.simple(env)
                out.append(st)
                if st[0] == "snap" and rs.below(2):
                    # the snapshot idiom in full: take the snapshot, change the variable, use the snapshot
                    out.append(["var", "b0", ["cv", self.cond(env, 1)], rs.below(2)])
                    for _ in range(4):
                        t, kind = self.target(env)
                        if kind == "bit":
                            out.append(["asg", t, ["cv", ["tb", st[1]]], rs.below(2) if t[0] == "sig" else 0])
                            break
            elif k == "if":
                arms = []
                for _ in range(rs.range(1, 3)):
                    c = self.cond(env)
                    arms.append([c, self.scoped(env, depth + 1, budget)])
                els = self.scoped(env, depth + 1, budget) if rs.below(2) else None
                out.append(["if", arms, els])
            elif k == "match":
                subj = rs.choice([["in", "d"], ["in", "u"]] + [["sig", x] for x in env["read_vec"][:2]] + [["var", x] for x in env["vars"][:1]])
                ks = rs.sample(list(range(16)), rs.range(1, 3))
                full = rs.below(4) == 0
                if full:
                    # every value of a 2-bit selector listed, usually without a default (a VHDL case still needs others)
                    subj = ["idx2", rs.choice(["d", "u"]), rs.below(3)]
                    ks = rs.sample(list(range(4)), 4)
                arms = [[kk, self.scoped(env, depth + 1, budget)] for kk in ks]
                dflt = self.scoped(env, depth + 1, budget) if rs.below(3) and not (full and rs.below(4)) else None
                out.append(["match", subj, arms, dflt])
            else:
                nn = rs.range(2, 4)
                vec = rs.choice(["d", "u"])
                blocks = []
                for i in range(nn):
                    env2 = dict(env, i=True)
                    # (an iteration may consist of the break alone: the empty branch still ends the chain)
                    blocks.append([] if rs.below(4) == 0 else self.scoped(env2, depth + 1, budget, single=True))
                els = self.scoped(env, depth + 1, budget, single=True) if rs.below(2) else None
                if els is not None and rs.below(6) == 0:
                    # a loop over an empty range: no iteration survives, the else block is all that is left
                    nn, blocks = 0, []
                out.append(["forbit", vec, nn, blocks, els])
        # temporaries defined in this block stay visible for the rest of the enclosing scope only when the
        # block is that scope's own statement list (handled by scoped())
        if not out:
            out.append(self.simple(env))
        return out

    def scoped(self, env, depth, budget, single=False):
        """a nested block: temporaries defined inside are not visible after it"""
        save = list(env["temps"])
        env2 = dict(env)
        env2["temps"] = list(save)
        env2["btemps"] = list(env.get("btemps", []))
        if single:
            b = [self.simple(env2)]
            while b[0][0] in ("let", "snap"):
                # the discarded definition must not be referenced
                (env2["temps"] if b[0][0] == "let" else env2["btemps"]).remove(b[0][1])
                b = [self.simple(env2)]
        else:
            b = self.block(env2, depth, budget)
        return b

    def program(self):
        rs = self.rs
        # ownership: which context drives what
        writable = VEC_OUT + BIT_OUT + VEC_SIG + BIT_SIG + ["mem", "pz"]
        shape = rs.weighted([(4, ["clocked", "concurrent"]), (3, ["clocked"]), (3, ["concurrent", "clocked", "concurrent"]), (2, ["clocked", "comb"]), (2, ["clocked", "clocked"]), (1, ["concurrent"])])
        ctxs = []
        owner = {}
        perm = rs.permute(writable)
        for i, o in enumerate(perm):
            owner[o] = rs.below(len(shape))
        first_clocked = next((i for i, k in enumerate(shape) if k == "clocked"), None)
        for o in ("mem", "pz"):
            owner[o] = first_clocked  # array element writes and pushes only from a clocked context
        var_owner = first_clocked
        for ci, kind in enumerate(shape):
            owns = [o for o in writable if owner.get(o) == ci]
            if kind != "clocked":
                owns = [o for o in owns if o not in ("mem", "pz")]
            ctxs.append({"kind": kind, "name": f"p{ci}", "owns": owns})
        # every context needs something to drive
        for c in ctxs:
            if not [o for o in c["owns"] if o not in ("mem", "pz")]:
                donor = max(ctxs, key=lambda x: len([o for o in x["owns"] if o not in ("mem", "pz")]))
                cand = [o for o in donor["owns"] if o not in ("mem", "pz")]
                if len(cand) > 1:
                    mv = cand[0]
                    donor["owns"].remove(mv)
                    c["owns"].append(mv)
        ctxs = [c for c in ctxs if [o for o in c["owns"] if o not in ("mem", "pz")] or c["owns"]]
        prog = {"edge": "rising", "ctxs": [], "var_init": {"v0": rs.below(16), "v1": rs.below(16), "w0": rs.below(2), "b0": rs.below(2), "vi": rs.below(4)}, "pz_noreset": rs.below(3) == 0}
        # targets hoisted with `with cohdl.always:` are combinational: chosen up front so that no combinational
        # context (and no hoisted expression) reads them -> no combinational loops
        hoisted = {}
        for c in ctxs:
            if c["kind"] == "clocked":
                own_plain = [o for o in c["owns"] if o in VEC_OUT + VEC_SIG]
                if own_plain and rs.below(3) == 0:
                    hoisted[c["name"]] = own_plain[0]
        comb_driven = set(hoisted.values())
        for c2 in ctxs:
            if c2["kind"] != "clocked":
                comb_driven |= set(c2["owns"])
        var_given = False
        for c in ctxs:
            kind = c["kind"]
            has_vars = kind == "clocked" and not var_given
            if has_vars:
                var_given = True
            env = {
                "kind": kind,
                "owns": list(c["owns"]),
                # a concurrent / comb context must not read what it drives itself (combinational loop)
                "read_vec": [n for n in VEC_OUT + VEC_SIG if kind == "clocked" or n not in c["owns"]],
                "read_bit": [n for n in BIT_OUT + BIT_SIG if kind == "clocked" or n not in c["owns"]],
                "vars": ["v0", "v1"] if has_vars else [],
                "vars_bit": ["w0"] if has_vars else [],
                "temps": [],
                "calls_ok": kind == "clocked",
            }
            if kind == "comb":
                own_vec = [o for o in c["owns"] if o in VEC_OUT + VEC_SIG]
                if len(own_vec) >= 2 and rs.below(2):
                    env["comb_early"] = own_vec[0]
            if kind != "clocked":
                # combinational contexts may only read registered objects or inputs, never other combinational
                # targets of a later context that reads them back: keep it acyclic by reading only objects owned
                # by clocked contexts (or nobody)
                comb_owned = comb_driven
                env["read_vec"] = [n for n in env["read_vec"] if n not in comb_owned]
                env["read_bit"] = [n for n in env["read_bit"] if n not in comb_owned]
            budget = [rs.range(3, 12 if self.big else 8)]
            always = []
            always_vals = []
            body = []
            if kind == "clocked":
                # hoisted always-targets: driven only there
                reg_vec = [n for n in env["read_vec"] if n not in comb_driven]
                reg_bit = [n for n in env["read_bit"] if n not in comb_driven]
                if c["name"] in hoisted:
                    t = hoisted[c["name"]]
                    env["owns"].remove(t)
                    aenv = dict(env, vars=[], vars_bit=[], temps=[], calls_ok=False, read_vec=reg_vec, read_bit=reg_bit)
                    always.append(["asg", ["sig", t], self.vexpr(aenv, 1), 0])
                if rs.below(4) == 0:
                    aenv = dict(env, vars=[], vars_bit=[], temps=[], calls_ok=False, read_vec=reg_vec, read_bit=reg_bit)
                    self.nt += 1
                    nm = f"t{self.nt}"
                    always_vals.append([nm, self.vexprh(aenv, 1)])
                    env["temps"].append(nm)
                    env.setdefault("atemps", []).append(nm)
            if kind == "comb":
                # unclocked sequential context: every target gets a default assignment first (no latch)
                # (and the context reads at least one signal: an unclocked context that reads nothing is emitted as
                # `process()` with an empty sensitivity list -- a C06 finding, not a C03 matter)
                for oi, o in enumerate(env["owns"]):
                    dflt = (["k", rs.below(16)] if oi else ["in", rs.choice(["d", "u"])]) if o in VEC_OUT + VEC_SIG else ["bv", ["in", rs.choice("abc")]]
                    body.append(["asg", ["sig", o], dflt, 0])
            if [o for o in env["owns"] if o != "pz" or kind == "clocked"]:
                if kind == "concurrent":
                    for o in env["owns"]:
                        if o in VEC_OUT + VEC_SIG:
                            if rs.below(4) == 0:
                                lo = rs.below(3)
                                # slices: every bit of a concurrently driven vector must be driven
                                body.append(["asg", ["slice", o, 3, 2], ["raw2", rs.choice(["d", "u"]), rs.choice([0, 1, 2])], 0])
                                body.append(["asg", ["slice", o, 1, 0], ["raw2", rs.choice(["d", "u"]), rs.choice([0, 1, 2])], 0])
                            else:
                                body.append(["asg", ["sig", o], self.vexpr(env), rs.below(2)])
                        else:
                            body.append(["asg", ["sig", o], ["bv", self.bexpr(env)], rs.below(2)])
                else:
                    body += self.block(env, 0, budget)
                    vec_owned = [n for n in env["owns"] if n in VEC_OUT + VEC_SIG]
                    if env.get("atemps") and vec_owned and rs.below(2):
                        # two equally typed views of ONE hoisted value at different positions
                        nm = env["atemps"][0]
                        body.append(["asg", ["sig", rs.choice(vec_owned)], ["add", ["sl2", nm, 0], ["sl2", nm, 2]], 0])
            prog["ctxs"].append({"kind": kind, "name": c["name"], "owns": c["owns"], "body": body, "always": always, "always_vals": always_vals, "has_vars": has_vars})
        # wrapper options of the clocked contexts: a reset (never active in this workload: reset behaviour is C04's
        # subject, but the std wrapper takes another code path with one) and a run-time step condition (input `en`):
        # a step in which the condition is false executes nothing and every target, pushed ones included, holds
        prog["rst_low"] = rs.below(2)
        for c in prog["ctxs"]:
            if c["kind"] == "clocked":
                c["reset"] = rs.choice([None, None, "sync", "async"])
                c["step"] = rs.below(3) == 0
        return prog


# ---------------- rendering --------------------------------------------------------------------

def r_name(n):
    return f"self.{n}" if n in VEC_OUT + BIT_OUT + ["pz", "a", "b", "c", "d", "u"] else n


def r_v(e):
    k = e[0]
    if k == "k":
        return str(e[1])
    if k in ("in", "sig"):
        return r_name(e[1])
    if k == "var":
        return e[1]
    if k == "t":
        return e[1]
    if k == "i":
        return "i"
    if k in ("add", "sub", "and", "or", "xor"):
        op = {"add": "+", "sub": "-", "and": "&", "or": "|", "xor": "^"}[k]
        return f"({r_v(e[1])} {op} {r_v(e[2])})"
    if k == "ite":
        return f"({r_v(e[2])} if {r_c(e[1])} else {r_v(e[3])})"
    if k == "pick":
        return f"pick({r_c(e[1])}, {r_v(e[2])}, y={r_v(e[3])})" if e[4] else f"pick({r_c(e[1])}, {r_v(e[2])}, {r_v(e[3])})"
    if k == "prio":
        return f"{'prio_after' if len(e) > 4 and e[4] else 'prio'}({r_name(e[1])}, {r_v(e[2])}, {r_v(e[3])})"
    if k == "sl2":
        return f"{r_name(e[1])}[{e[2] + 1}:{e[2]}].unsigned.resize(4)"
    if k == "raw2":
        return f"{r_name(e[1])}[{e[2] + 1}:{e[2]}]"
    if k == "idx2":
        return f"{r_name(e[1])}[{e[2] + 1}:{e[2]}].unsigned"
    if k == "bv":
        return r_b(e[1])
    if k == "cv":
        return r_c(e[1])
    raise AssertionError(k)


def r_b(e):
    k = e[0]
    if k in ("in", "sig"):
        return r_name(e[1])
    if k == "var":
        return e[1]
    if k == "bnot":
        return f"(~{r_b(e[1])})"
    if k in ("band", "bor", "bxor"):
        return f"({r_b(e[1])} {'&' if k == 'band' else '|' if k == 'bor' else '^'} {r_b(e[2])})"
    if k == "bitof":
        return f"{r_name(e[1])}[{e[2]}]"
    if k == "rtbit":
        return f"{r_name(e[1])}[{r_name(e[2])}[{e[3] + 1}:{e[3]}].unsigned]"
    raise AssertionError(k)


def r_c(c):
    k = c[0]
    if k == "b":
        return r_b(c[1])
    if k == "tb":
        return c[1]
    if k == "vb":
        return c[1]
    if k == "not":
        return f"(not {r_c(c[1])})"
    if k in ("and", "or"):
        return f"({r_c(c[1])} {k} {r_c(c[2])})"
    if k == "cmpsel":
        return f"cmpsel({r_c(c[1])}, {r_v(c[2])}, {r_v(c[3])})"
    if k == "cite":
        return f"(bool({r_c(c[2])}) if {r_c(c[1])} else bool({r_c(c[3])}))"
    op = {"eq": "==", "ne": "!=", "lt": "<", "ge": ">="}[k]
    return f"({r_v(c[1])} {op} {r_v(c[2])})"


def r_target(t):
    if t[0] == "sig":
        return r_name(t[1])
    if t[0] == "slice":
        return f"{r_name(t[1])}[{t[2]}:{t[3]}]"
    if t[0] == "bit":
        return f"{r_name(t[1])}[{t[2]}]"
    return f"mem[{r_v(t[1])}]"


def r_block(stmts, ind, out):
    pad = "    " * ind
    for s in stmts:
        k = s[0]
        if k == "asg":
            if s[3] and s[1][0] == "sig":
                out.append(f"{pad}{r_target(s[1])}.next = {r_v(s[2])}")
            else:
                out.append(f"{pad}{r_target(s[1])} <<= {r_v(s[2])}")
        elif k == "var":
            if s[3]:
                out.append(f"{pad}{s[1]}.value = {r_v(s[2])}")
            else:
                out.append(f"{pad}{s[1]} @= {r_v(s[2])}")
        elif k == "push":
            # (form 2: the explicit-mode assignment that std aggregates -- Record, Array, fixed point ... -- forward their `^=` to)
            out.append(f"{pad}std.assign(self.pz, {r_v(s[1])}, cohdl.AssignMode.PUSH)" if s[2] == 2 else f"{pad}self.pz.push = {r_v(s[1])}" if s[2] else f"{pad}self.pz ^= {r_v(s[1])}")
        elif k == "rdptr":
            out.append(f"{pad}{s[1]} = mem[vi]")
            out.append(f"{pad}vi @= vi + {s[3]}")
            out.append(f"{pad}{r_name(s[2])} <<= {s[1]}" if r_name(s[2]).startswith("self.") else f"{pad}{s[2]}.next = {s[1]}")
        elif k == "let":
            out.append(f"{pad}{s[1]} = {r_v(s[2])}")
        elif k == "snap":
            out.append(f"{pad}{s[1]} = bool({s[2]})")
        elif k == "if":
            for j, (c, b) in enumerate(s[1]):
                out.append(f"{pad}{'if' if j == 0 else 'elif'} {r_c(c)}:")
                r_block(b, ind + 1, out)
            if s[2] is not None:
                out.append(f"{pad}else:")
                r_block(s[2], ind + 1, out)
        elif k == "match":
            out.append(f"{pad}match {r_v(s[1])}:")
            for kk, b in s[2]:
                out.append(f"{pad}    case {kk}:")
                r_block(b, ind + 2, out)
            if s[3] is not None:
                out.append(f"{pad}    case _:")
                r_block(s[3], ind + 2, out)
        elif k == "forbit":
            # per-iteration statements: selected with constant ifs on the loop index (folded at compile time)
            out.append(f"{pad}for i in range({s[2]}):")
            out.append(f"{pad}    if {r_name(s[1])}[i]:")
            first = True
            for i, b in enumerate(s[3]):
                if not b:
                    continue  # this iteration consists of the break alone
                out.append(f"{pad}        {'if' if first else 'elif'} i == {i}:")
                first = False
                r_block(b, ind + 3, out)
            out.append(f"{pad}        break")
            if s[4] is not None:
                out.append(f"{pad}else:")
                r_block(s[4], ind + 1, out)
        else:
            raise AssertionError(k)


def written_vars(stmts, acc):
    for s in stmts:
        if s[0] == "rdptr":
            acc.add("vi")
        if s[0] == "var":
            acc.add(s[1])
        elif s[0] == "asg" and s[1][0] == "sig" and not s[3] and s[1][1] in VEC_SIG + BIT_SIG:
            acc.add(s[1][1])  # `s0 <<= x` rebinds the name: needs nonlocal like a variable
        elif s[0] == "if":
            for c, b in s[1]:
                written_vars(b, acc)
            if s[2]:
                written_vars(s[2], acc)
        elif s[0] == "match":
            for kk, b in s[2]:
                written_vars(b, acc)
            if s[3]:
                written_vars(s[3], acc)
        elif s[0] == "forbit":
            for b in s[3]:
                written_vars(b, acc)
            if s[4]:
                written_vars(s[4], acc)


def render(prog, attrs=None):
    L = [
        "from __future__ import annotations",
        "import cohdl",
        "from cohdl import Bit, BitVector, Unsigned, Signed, Port, Signal, Variable, Null, Full, true, false",
        "from cohdl import std",
        "",
        "def pick(c, x, y=3):",
        "    if c:",
        "        return x",
        "    else:",
        "        if x == y:",
        "            return y + 1",
        "    return y",
        "",
        "def prio(vec, x, y):",
        "    for i in range(3):",
        "        if vec[i]:",
        "            return x + i",
        "    else:",
        "        return y",
        "",
        "def prio_after(vec, x, y):",
        "    for i in range(3):",
        "        if vec[i]:",
        "            return x",
        "    return y",
        "",
        "def cmpsel(c, x, y):",
        "    if c:",
        "        return x == y",
        "    else:",
        "        return x < y",
        "",
        "class E(cohdl.Entity):",
        "    clk = Port.input(Bit)",
        "    a = Port.input(Bit)",
        "    b = Port.input(Bit)",
        "    c = Port.input(Bit)",
        "    d = Port.input(Unsigned[4])",
        "    u = Port.input(Unsigned[4])",
        "    en = Port.input(Bit)",
        "    rst = Port.input(Bit)",
    ]
    for o in VEC_OUT:
        L.append(f"    {o} = Port.output(Unsigned[4], default=0)")
    for o in BIT_OUT:
        L.append(f"    {o} = Port.output(Bit, default=False)")
    # (a pushed target that is also noreset still falls back to its default in every step without a push)
    pz_decl = "    pz = Port.output(Unsigned[4], default=5, noreset=True)" if prog.get("pz_noreset") else "    pz = Port.output(Unsigned[4], default=5)"
    L += [pz_decl, "    mr = Port.output(Unsigned[4])", "", "    def architecture(self):"]
    for s in VEC_SIG:
        L.append(f"        {s} = Signal[Unsigned[4]](0)")
    L.append("        g0 = Signal[Bit](False)")
    L.append("        mem = Signal[cohdl.Array[Unsigned[4], 4]](Null)")
    vi = prog["var_init"]
    L.append(f"        v0 = Variable[Unsigned[4]]({vi['v0']})")
    L.append(f"        v1 = Variable[Unsigned[4]]({vi['v1']})")
    L.append(f"        w0 = Variable[Bit]({bool(vi['w0'])})")
    L.append(f"        b0 = Variable[bool]({bool(vi.get('b0', 0))})")
    L.append(f"        vi = Variable[Unsigned[2]]({vi.get('vi', 0)})")
    clk = "std.Clock(self.clk)" if prog["edge"] == "rising" else "std.Clock(self.clk, active_edge=std.Clock.Edge.FALLING)"
    kw = (", attributes=" + repr(attrs)) if attrs else ""
    for c in prog["ctxs"]:
        if c["kind"] == "clocked":
            rst = ""
            if c.get("reset"):
                rst = f", std.Reset(self.rst, active_low={bool(prog.get('rst_low'))}, is_async={c['reset'] == 'async'})"
            step = ", step_cond=lambda: self.en" if c.get("step") else ""
            L.append(f"        @std.sequential({clk}{rst}{step}{kw})")
        elif c["kind"] == "comb":
            L.append("        @std.sequential")
        else:
            L.append("        @std.concurrent")
        L.append(f"        def {c['name']}():")
        w = set()
        written_vars(c["body"], w)
        written_vars(c["always"], w)
        if w:
            L.append(f"            nonlocal {', '.join(sorted(w))}")
        n0 = len(L)
        for nm, e in c["always_vals"]:
            L.append(f"            {nm} = cohdl.always({r_v(e)})")
        if c["always"]:
            L.append("            with cohdl.always:")
            r_block(c["always"], 4, L)
        r_block(c["body"], 3, L)
        if len(L) == n0:
            L.append("            pass")
    L += ["        @std.concurrent", "        def mem_read():", "            self.mr <<= mem[self.u[1:0].unsigned]"]
    return "\n".join(L) + "\n"


def count_nodes(stmts):
    n = 0
    for s in stmts:
        n += 1
        if s[0] == "if":
            n += sum(count_nodes(b) for c, b in s[1]) + (count_nodes(s[2]) if s[2] else 0)
        elif s[0] == "match":
            n += sum(count_nodes(b) for k, b in s[2]) + (count_nodes(s[3]) if s[3] else 0)
        elif s[0] == "forbit":
            n += sum(count_nodes(b) for b in s[3]) + (count_nodes(s[4]) if s[4] else 0)
    return n


def shape(prog):
    def sh(stmts):
        out = []
        for s in stmts:
            if s[0] == "if":
                out.append(("if", tuple(sh(b) for c, b in s[1]), sh(s[2]) if s[2] else None))
            elif s[0] == "match":
                out.append(("match", tuple(sh(b) for k, b in s[2]), sh(s[3]) if s[3] else None))
            elif s[0] == "forbit":
                out.append(("for", tuple(sh(b) for b in s[3]), sh(s[4]) if s[4] else None))
            elif s[0] == "asg":
                out.append(("asg", s[1][0]))
            else:
                out.append(s[0])
        return tuple(out)

    return tuple((c["kind"], sh(c["body"]), len(c["always"]), len(c["always_vals"])) for c in prog["ctxs"])
