"""Typed expression trees over hardware operands — workload of C02 (and operand source for C05 / C09).

Types: ("U", w) Unsigned, ("S", w) Signed, ("BV", w) BitVector, ("Bit",), ("bool",).
A node is a list [op, type, *args]; leaves are ["port", type, name] and ["ci", int] (Python int literal, only where the
documented semantics allow an int operand) and ["cv", type, value] (constant vector object, e.g. Unsigned[3](1)).
Values in the reference model are unsigned bit patterns (Python ints) of the node's width.

Documented rules implemented by eval():  + and - : max width (an int operand takes the vector's width), wrap modulo
the result width; * : sum of widths (int operand: twice the vector's width); truncdiv : dividend width; mod / rem :
divisor width; unsigned operands zero-extended and signed operands sign-extended before mixed-width operations;
>> logical for Unsigned and arithmetic for Signed; the left operand of @ forms the most significant bits.
"""
from __future__ import annotations

PORTS = {
    "u4a": ("U", 4), "u4b": ("U", 4), "u3": ("U", 3), "u2": ("U", 2), "u1": ("U", 1), "u8": ("U", 8), "u16": ("U", 16), "u33": ("U", 33),
    "s4a": ("S", 4), "s4b": ("S", 4), "s6": ("S", 6), "s2": ("S", 2), "s1": ("S", 1), "s9": ("S", 9), "s33": ("S", 33),
    "bv4a": ("BV", 4), "bv4b": ("BV", 4), "bv2": ("BV", 2), "bv1": ("BV", 1), "bv7": ("BV", 7),
    "b0": ("Bit",), "b1": ("Bit",), "b2": ("Bit",),
}  # fmt: skip


def width(t):
    return 1 if t[0] in ("Bit", "bool") else t[1]


def mask(w):
    return (1 << w) - 1


def sgn(v, w):
    return v - (1 << w) if v >> (w - 1) else v


def tstr(t):
    if t[0] == "I":
        return "int"  # run-time integers (VHDL integer); as a compile-time constant: cohdl.Integer
    return {"U": "Unsigned[%d]", "S": "Signed[%d]", "BV": "BitVector[%d]"}[t[0]] % t[1] if t[0] in ("U", "S", "BV") else "Bit"


class Gen:
    def __init__(self, rs, max_bits=10, wide=False):
        self.rs = rs
        self.used = {}
        self.max_bits = max_bits
        self.wide = wide

    def bits_used(self):
        return sum(width(PORTS[p]) for p in self.used)

    def port(self, t):
        rs = self.rs
        cands = [n for n, pt in PORTS.items() if pt == t]
        if not cands:
            return None
        # prefer ports already used so that the total operand width stays enumerable
        used = [n for n in cands if n in self.used]
        if used and (rs.below(2) or self.bits_used() + width(t) > self.max_bits):
            n = rs.choice(used)
        else:
            n = rs.choice(cands)
        self.used[n] = True
        return ["port", t, n]

    def ports_of_kind(self, kind):
        return sorted({pt[1] for pt in PORTS.values() if pt[0] == kind and (self.wide or pt[1] <= 9)})

    # ---- generators per type -------------------------------------------------------------------
    def gen(self, t, d=0):
        k = t[0]
        if k in ("U", "S"):
            return self.num(t, d)
        if k == "BV":
            return self.bv(t, d)
        if k == "Bit":
            return self.bit(d)
        return self.cond(d)

    def leaf_or(self, t, d, alt):
        p = self.port(t) if (d >= 3 or self.rs.below(3) == 0) else None
        return p if p is not None else alt()

    def num(self, t, d):
        rs = self.rs
        k, w = t
        if d >= 3:
            p = self.port(t)
            if p:
                return p
        ws = self.ports_of_kind(k)
        if d >= 5:
            # terminal fallback for types without a port: widen a narrower port, or a constant vector
            nar = [x for x in ws if x < w]
            if nar:
                return ["resize", t, self.port((k, max(nar)))]
            return ["cv", t, rs.below(2)]
        opts = []
        if t in PORTS.values():
            opts += [(6, "port")]
        if any(x <= w for x in ws):
            opts += [(5, "addsub"), (2, "addint"), (3, "bitwise"), (3, "shift"), (2, "ite")]
        if w >= 2:
            opts += [(2, "mul")]
        if any(x < w for x in ws):
            opts += [(2, "resize")]
        if any(x < w for x in ws):
            opts += [(2, "conv")]
        opts += [(2, "view"), (1, "inv"), (1, "select")]
        if any(x == w for x in ws):
            opts += [(2, "truncdiv")]
        if any(x == w for x in ws) and len(ws) > 1:
            opts += [(2, "modrem")]
        if k == "S":
            opts += [(2, "negabs")]
        if w == 2 * (w // 2) and (w // 2) in ws:
            opts += [(1, "mulint")]
        c = rs.weighted(opts)
        if c == "port":
            return self.port(t)
        if c == "addsub":
            w2 = rs.choice([x for x in ws if x <= w])
            a, b = self.gen((k, w), d + 1), self.gen((k, w2), d + 1)
            if rs.below(2):
                a, b = b, a
            return [rs.choice(["add", "sub"]), t, a, b]
        if c == "addint":
            lim = mask(w) if k == "U" else mask(w - 1)
            ci = ["ci", rs.range(0, min(lim, 9)) if k == "U" else rs.range(-min(lim, 5) - 0, min(lim, 5))]
            a = self.gen(t, d + 1)
            op = rs.choice(["add", "sub"])
            return [op, t, ci, a] if rs.below(2) else [op, t, a, ci]
        if c == "bitwise":
            return [rs.choice(["and", "or", "xor"]), t, self.gen(t, d + 1), self.gen(t, d + 1)]
        if c == "inv":
            return ["inv", t, self.gen(t, d + 1)]
        if c == "shift":
            op = rs.choice(["shl", "shr"])
            if rs.below(2):
                return [op, t, self.gen(t, d + 1), ["ci", rs.range(0, w + 1)]]
            return [op, t, self.gen(t, d + 1), self.gen(("U", rs.choice([1, 2, 3])), d + 2)]
        if c == "ite":
            return ["ite", t, self.cond(d + 1), self.gen(t, d + 1), self.gen(t, d + 1)]
        if c == "mul":
            w1 = rs.range(1, w - 1)
            return ["mul", t, self.gen((k, w1), d + 1), self.gen((k, w - w1), d + 1)]
        if c == "mulint":
            lim = mask(w // 2) if k == "U" else mask(w // 2 - 1) if w // 2 > 1 else 0
            ci = ["ci", rs.range(0, min(lim, 7))]
            a = self.gen((k, w // 2), d + 1)
            return ["mul", t, ci, a] if rs.below(2) else ["mul", t, a, ci]
        if c == "resize" and rs.below(3) == 0:
            # resize with zeros appended on the right: value * 2**zeros, then sign- / zero-extended to the target width
            w0 = rs.choice([x for x in ws if x < w])
            z = rs.range(1, w - w0)
            return ["resizez", t, self.gen((k, w0), d + 1), z, rs.below(2)]
        if c == "resize":
            w0 = rs.choice([x for x in ws if x < w])
            return ["resize", t, self.gen((k, w0), d + 1)]
        if c == "conv":
            # constructor conversion to a wider type: value preserving (Unsigned -> Unsigned / Signed zero-extends, Signed -> Signed sign-extends)
            w0 = rs.choice([x for x in ws if x < w])
            k0 = rs.choice(["U", "S"]) if k == "S" else "U"
            return ["conv", t, self.gen((k0, w0), d + 1)]
        if c == "view":
            k2 = rs.choice([x for x in ("U", "S", "BV") if x != k])
            return ["view", t, self.gen((k2, w), d + 1)]
        if c == "select":
            sel = self.gen(("BV", 2), d + 2)
            keys = rs.sample([0, 1, 2, 3], rs.range(1, 3))
            return ["select", t, sel, [[kk, self.gen(t, d + 2)] for kk in keys], self.gen(t, d + 2)]
        if c == "truncdiv":
            w2 = rs.choice(ws)
            return ["truncdiv", t, self.gen(t, d + 1), self.nonzero((k, w2), d + 1)]
        if c == "modrem":
            w1 = rs.choice(ws)
            return [rs.choice(["mod", "rem"]), t, self.gen((k, w1), d + 1), self.nonzero(t, d + 1)]
        if c == "negabs":
            return [rs.choice(["neg", "abs"]), t, self.gen(t, d + 1)]
        raise AssertionError(c)

    def nonzero(self, t, d):
        """a value that is never zero: x | 1"""
        one = -1 if t == ("S", 1) else 1  # Signed[1] cannot hold +1; its only non-zero value is -1
        return ["or", t, self.gen(t, d + 1), ["cv", t, one]]

    def bv(self, t, d):
        rs = self.rs
        w = t[1]
        if d >= 3:
            p = self.port(t)
            if p:
                return p
        if d >= 5:
            return ["cv", t, rs.bits(w)]
        opts = [(3, "concat")] if w >= 2 else []
        if t in PORTS.values():
            opts += [(5, "port")]
        opts += [(3, "view"), (2, "slice"), (2, "bitwise"), (1, "inv"), (1, "ite")]
        c = rs.weighted(opts)
        if c == "port":
            return self.port(t)
        if c == "concat":
            w1 = rs.range(1, w - 1)
            parts = []
            for ww in (w1, w - w1):
                kk = rs.choice(["U", "S", "BV"]) if ww > 1 else rs.choice(["Bit", "BV", "U"])
                parts.append(self.gen(("Bit",) if kk == "Bit" else (kk, ww), d + 1))
            if rs.below(3) == 0:
                # one operand is a compile-time constant OBJECT (Unsigned / Signed / BitVector literal), the other stays run-time
                j = rs.below(2)
                ww = (w1, w - w1)[j]
                kk = rs.choice(["U", "S", "BV"])
                parts[j] = ["cv", (kk, ww), rs.bits(ww) - ((1 << (ww - 1)) if kk == "S" else 0)]
            return ["concat", t, parts[0], parts[1]]
        if c == "view":
            return ["view", t, self.gen((rs.choice(["U", "S"]), w), d + 1)]
        if c == "slice":
            srcs = [pt for pt in set(PORTS.values()) if pt[0] in ("U", "S", "BV") and pt[1] > w and (self.wide or pt[1] <= 9)]
            if not srcs:
                return ["view", t, self.gen(("U", w), d + 1)]
            st = rs.choice(sorted(srcs))
            if rs.below(3) == 0 and d < 3:
                # slice of a slice (of a slice): the source is itself a BitVector a few bits wider, produced by
                # another slice with a non-zero low bound most of the time -> chains of three and more levels
                extra = rs.range(1, 3)
                st2 = ("BV", w + extra)
                inner = self.bv_slice_chain(st2, d + 1)
                lo = rs.range(0, extra)
                return ["slice", t, inner, lo + w - 1, lo]
            lo = rs.range(0, st[1] - w)
            return ["slice", t, self.gen(st, d + 1), lo + w - 1, lo]
        if c == "bitwise":
            return [rs.choice(["and", "or", "xor"]), t, self.gen(t, d + 1), self.gen(t, d + 1)]
        if c == "inv":
            return ["inv", t, self.gen(t, d + 1)]
        return ["ite", t, self.cond(d + 1), self.gen(t, d + 1), self.gen(t, d + 1)]

    def bv_slice_chain(self, t, d):
        """a BitVector of width t[1] obtained as a slice of a wider port or of a further slice"""
        rs = self.rs
        w = t[1]
        srcs = sorted(pt for pt in set(PORTS.values()) if pt[0] in ("U", "S", "BV") and pt[1] > w and (self.wide or pt[1] <= 16))
        if not srcs:
            return self.gen(t, d)
        if rs.below(2) and d < 4 and w + 2 <= 14:
            extra = rs.range(1, 3)
            inner = self.bv_slice_chain(("BV", w + extra), d + 1)
            lo = rs.range(1 if extra else 0, extra)
            return ["slice", t, inner, lo + w - 1, lo]
        st = rs.choice(srcs)
        p = self.port(st)
        lo = rs.range(min(1, st[1] - w), st[1] - w)
        return ["slice", t, p, lo + w - 1, lo]

    def bit(self, d):
        rs = self.rs
        t = ("Bit",)
        if d >= 3:
            return self.port(t)
        c = rs.weighted([(5, "port"), (3, "index"), (2, "rtindex"), (3, "bitop"), (1, "inv"), (1, "ite")])
        if c == "port":
            return self.port(t)
        if c == "index" and rs.below(3) == 0:
            w = rs.range(2, 5)
            return ["index", t, self.bv_slice_chain(("BV", w), d + 1), rs.below(w)]
        if c == "index":
            st = rs.choice(sorted(pt for pt in set(PORTS.values()) if pt[0] in ("U", "S", "BV") and (self.wide or pt[1] <= 9)))
            return ["index", t, self.gen(st, d + 1), rs.below(st[1])]
        if c == "rtindex":
            # run-time index: the index type cannot address beyond the vector (precondition of indexing)
            st, it = rs.choice([(("BV", 4), ("U", 2)), (("U", 4), ("U", 2)), (("U", 8), ("U", 3)), (("S", 4), ("U", 2)), (("BV", 2), ("U", 1)), (("U", 16), ("U", 4))])
            return ["rtindex", t, self.gen(st, d + 1), self.gen(it, d + 2)]
        if c == "bitop":
            return [rs.choice(["and", "or", "xor"]), t, self.bit(d + 1), self.bit(d + 1)]
        if c == "inv":
            return ["inv", t, self.bit(d + 1)]
        return ["ite", t, self.cond(d + 1), self.bit(d + 1), self.bit(d + 1)]

    def cond(self, d):
        rs = self.rs
        t = ("bool",)
        c = rs.weighted([(5, "cmp"), (2, "cmpint"), (2, "eqbv"), (2, "chain"), (2, "chainn"), (1, "cmpnf"), (3, "bit"), (3, "logic"), (1, "not"), (1, "anyall")] if d < 3 else [(3, "cmp"), (3, "bit")])
        if c == "bit":
            return ["tobool", t, self.bit(max(d, 2) + 1)]
        if c in ("cmp", "cmpint", "chain"):
            k = rs.choice(["U", "S"])
            ws = self.ports_of_kind(k)
            w1, w2 = rs.choice(ws), rs.choice(ws)
            op = rs.choice(["lt", "le", "gt", "ge", "eq", "ne"])
            a = self.gen((k, w1), d + 1)
            if c == "cmp":
                return ["cmp", t, op, a, self.gen((k, w2), d + 1)]
            lim = mask(w1) if k == "U" else mask(w1 - 1)
            ci = ["ci", rs.range(0, lim) if k == "U" else rs.range(-lim - 1, lim)]
            if c == "cmpint":
                return ["cmp", t, op, ci, a] if rs.below(2) else ["cmp", t, op, a, ci]
            op2 = rs.choice(["lt", "le", "gt", "ge"])
            return ["chain", t, op, op2, ci, a, self.gen((k, w2), d + 1)]
        if c == "cmpnf":
            k = rs.choice(["U", "S"])
            w1 = rs.choice(self.ports_of_kind(k))
            return ["cmpnf", t, rs.choice(["lt", "le", "gt", "ge", "eq", "ne"]), self.gen((k, w1), d + 1), rs.choice(["Null", "Full"]), rs.below(2)]
        if c == "chainn":
            # chains of 3-4 operands in which some operands (also neighbouring ones) are compile-time constants: a link
            # between two constants is folded, the links around it still compare with the right operands
            k = rs.choice(["U", "S"])
            ws = self.ports_of_kind(k)
            n = rs.range(3, 4)
            const = [rs.below(2) for _ in range(n)]
            if all(const):
                const[rs.below(n)] = 0
            rws = [rs.choice(ws) for _ in range(n)]
            lim_w = min(w for w, cc in zip(rws, const) if not cc)
            lim = mask(lim_w) if k == "U" else mask(lim_w - 1)
            operands = []
            for j in range(n):
                if const[j]:
                    operands.append(["ci", rs.range(0, lim) if k == "U" else rs.range(-lim - 1, lim)])
                else:
                    operands.append(self.gen((k, rws[j]), d + 1))
            ops = [rs.choice(["lt", "le", "gt", "ge", "eq", "ne"])] + [rs.choice(["lt", "le", "gt", "ge"]) for _ in range(n - 2)]
            return ["chainn", t, ",".join(ops), operands]
        if c == "eqbv":
            w = rs.choice([1, 2, 4])
            return ["cmp", t, rs.choice(["eq", "ne"]), self.gen(("BV", w), d + 1), self.gen(("BV", w), d + 1)]
        if c == "logic":
            return [rs.choice(["land", "lor"]), t, self.cond(d + 1), self.cond(d + 1)]
        if c == "not":
            return ["lnot", t, self.cond(d + 1)]
        n = rs.range(2, 3)
        # (elements may be compile-time constants: a constant False in all() / True in any() decides the result)
        elems = [["cbool", t, rs.below(2)] if rs.below(4) == 0 else self.cond(d + 2) if rs.below(2) else ["tobool", t, self.bit(3)] for _ in range(n)]
        return [rs.choice(["any", "all"]), t, elems]


# ---- rendering ----------------------------------------------------------------------------------

SUBST = {}  # id(node) -> replacement text (used by C02's late-use context)


def r(e, bit_as_cond=False):
    op = e[0]
    if SUBST and id(e) in SUBST:
        return SUBST[id(e)]
    if op == "port":
        return f"self.{e[2]}"
    if op == "ci":
        return str(e[1]) if e[1] >= 0 else f"({e[1]})"
    if op == "cv":
        if e[1][0] == "I":
            return f"cohdl.Integer({sgn(e[2] & mask(32), 32)})"
        if e[1][0] == "BV":
            return f"{tstr(e[1])}(\"{e[2] & mask(e[1][1]):0{e[1][1]}b}\")"
        return f"{tstr(e[1])}({e[2]})"
    t = e[1]
    if op in ("add", "sub", "mul", "and", "or", "xor"):
        s = {"add": "+", "sub": "-", "mul": "*", "and": "&", "or": "|", "xor": "^"}[op]
        return f"({r(e[2])} {s} {r(e[3])})"
    if op == "inv":
        return f"(~{r(e[2])})"
    if op == "neg":
        return f"(-{r(e[2])})"
    if op == "abs":
        return f"abs({r(e[2])})"
    if op == "truncdiv":
        return f"op.truncdiv({r(e[2])}, {r(e[3])})"
    if op == "mod":
        return f"({r(e[2])} % {r(e[3])})"
    if op == "rem":
        return f"op.rem({r(e[2])}, {r(e[3])})"
    if op in ("shl", "shr"):
        return f"({r(e[2])} {'<<' if op == 'shl' else '>>'} {r(e[3])})"
    if op == "ite":
        return f"({r(e[3])} if {r(e[2])} else {r(e[4])})"
    if op == "resize":
        return f"{r(e[2])}.resize({t[1]})"
    if op == "resizez":
        return f"{r(e[2])}.resize({t[1]}, zeros={e[3]})" if e[4] or typ(e[2])[1] + e[3] < t[1] else f"{r(e[2])}.resize(zeros={e[3]})"
    if op == "conv":
        # run-time operands: a typed temporary (the constructor form takes constants only); constants: the constructor
        return f"cohdl.Temporary[{tstr(t)}]({r(e[2])})" if ports_used(e[2]) else f"{tstr(t)}({r(e[2])})"
    if op == "view":
        return f"{r(e[2])}.{ {'U': 'unsigned', 'S': 'signed', 'BV': 'bitvector'}[t[0]] }"
    if op == "select":
        kv = ", ".join(f'"{k:02b}": {r(v)}' for k, v in e[3])
        return f"cohdl.select_with({r(e[2])}, {{{kv}}}, default={r(e[4])})"
    if op == "concat":
        return f"({r(e[2])} @ {r(e[3])})"
    if op == "slice":
        return f"{r(e[2])}[{e[3]}:{e[4]}]"
    if op == "index":
        return f"{r(e[2])}[{e[3]}]"
    if op == "rtindex":
        return f"{r(e[2])}[{r(e[3])}]"
    if op == "tobool":
        return r(e[2])
    if op == "cbool":
        return "True" if e[2] else "False"
    if op == "cmp":
        s = {"lt": "<", "le": "<=", "gt": ">", "ge": ">=", "eq": "==", "ne": "!="}[e[2]]
        return f"({r(e[3])} {s} {r(e[4])})"
    if op == "chain":
        s1 = {"lt": "<", "le": "<=", "gt": ">", "ge": ">=", "eq": "==", "ne": "!="}[e[2]]
        s2 = {"lt": "<", "le": "<=", "gt": ">", "ge": ">="}[e[3]]
        return f"({r(e[4])} {s1} {r(e[5])} {s2} {r(e[6])})"
    if op == "cmpnf":
        sym = {"lt": "<", "le": "<=", "gt": ">", "ge": ">=", "eq": "==", "ne": "!="}[e[2]]
        return f"({e[4]} {sym} {r(e[3])})" if e[5] else f"({r(e[3])} {sym} {e[4]})"
    if op == "chainn":
        sym = {"lt": "<", "le": "<=", "gt": ">", "ge": ">=", "eq": "==", "ne": "!="}
        txt = r(e[3][0])
        for o, x in zip(e[2].split(","), e[3][1:]):
            txt += f" {sym[o]} {r(x)}"
        return f"({txt})"
    if op in ("land", "lor"):
        return f"({r(e[2])} {'and' if op == 'land' else 'or'} {r(e[3])})"
    if op == "lnot":
        return f"(not {r(e[2])})"
    if op in ("any", "all"):
        return f"{op}([{', '.join(r(x) for x in e[2])}])"
    raise AssertionError(op)


def ports_used(e, acc=None):
    acc = {} if acc is None else acc
    if e[0] == "port":
        acc[e[2]] = e[1]
    else:
        for x in e[1:]:
            if isinstance(x, list):
                if x and isinstance(x[0], str):
                    ports_used(x, acc)
                else:
                    for y in x:
                        if isinstance(y, list):
                            if y and isinstance(y[0], str):
                                ports_used(y, acc)
                            else:
                                for z in y:
                                    if isinstance(z, list) and z and isinstance(z[0], str):
                                        ports_used(z, acc)
    return acc


def count(e):
    if e[0] in ("port", "ci", "cv", "cbool"):
        return 1
    n = 1
    for x in e[1:]:
        if isinstance(x, list):
            if x and isinstance(x[0], str):
                n += count(x)
            else:
                for y in x:
                    if isinstance(y, list):
                        if y and isinstance(y[0], str):
                            n += count(y)
                        else:
                            n += sum(count(z) for z in y if isinstance(z, list) and z and isinstance(z[0], str))
    return n


def ops_in(e, acc):
    if e[0] in ("port", "ci", "cv", "cbool"):
        return acc
    acc.add(e[0] if e[0] != "cmp" else "cmp:" + e[2])
    for x in e[1:]:
        if isinstance(x, list):
            if x and isinstance(x[0], str):
                ops_in(x, acc)
            else:
                for y in x:
                    if isinstance(y, list):
                        if y and isinstance(y[0], str):
                            ops_in(y, acc)
                        else:
                            for z in y:
                                if isinstance(z, list) and z and isinstance(z[0], str):
                                    ops_in(z, acc)
    return acc


# ---- reference evaluation -----------------------------------------------------------------------

def typ(e):
    return ("int",) if e[0] == "ci" else e[1]


def num(e, env):
    """numeric value (Python int, signed for S) of a U/S/int node"""
    if e[0] == "ci":
        return e[1]
    v = ev(e, env)
    return sgn(v, e[1][1]) if e[1][0] in ("S", "I") else v


def wrap(n, t):
    return n & mask(width(t))


def tdiv(a, b):
    q = abs(a) // abs(b)
    return -q if (a < 0) != (b < 0) else q


def ev(e, env):
    """bit pattern of the node's value"""
    op = e[0]
    if op == "port":
        return env[e[2]]
    if op == "cv":
        return e[2] & mask(width(e[1]))
    t = e[1]
    w = width(t)
    if op in ("add", "sub", "mul"):
        a, b = num(e[2], env), num(e[3], env)
        return wrap(a + b if op == "add" else a - b if op == "sub" else a * b, t)
    if op in ("and", "or", "xor"):
        a, b = ev(e[2], env), ev(e[3], env)
        return (a & b) if op == "and" else (a | b) if op == "or" else (a ^ b)
    if op == "inv":
        return (~ev(e[2], env)) & mask(w)
    if op == "neg":
        return wrap(-num(e[2], env), t)
    if op == "abs":
        return wrap(abs(num(e[2], env)), t)
    if op == "truncdiv":
        return wrap(tdiv(num(e[2], env), num(e[3], env)), t)
    if op == "mod":
        a, b = num(e[2], env), num(e[3], env)
        return wrap(a % b, t)  # Python's % has the sign of the divisor, like VHDL mod
    if op == "rem":
        a, b = num(e[2], env), num(e[3], env)
        return wrap(a - b * tdiv(a, b), t)
    if op in ("shl", "shr"):
        x = ev(e[2], env)
        n = num(e[3], env)
        if op == "shl":
            return (x << n) & mask(w) if n < 4 * w + 64 else 0
        if t[0] == "S":
            return wrap(sgn(x, w) >> min(n, w + 64), t)
        return x >> n
    if op == "ite":
        return ev(e[3], env) if ev(e[2], env) else ev(e[4], env)
    if op == "resize":
        return wrap(num(e[2], env), t)
    if op == "resizez":
        return wrap(num(e[2], env) << e[3], t)
    if op == "conv":
        return wrap(num(e[2], env), t)
    if op == "view":
        return ev(e[2], env)
    if op == "select":
        s = ev(e[2], env)
        for k, v in e[3]:
            if k == s:
                return ev(v, env)
        return ev(e[4], env)
    if op == "concat":
        return (ev(e[2], env) << width(typ(e[3]))) | ev(e[3], env)
    if op == "slice":
        return (ev(e[2], env) >> e[4]) & mask(e[3] - e[4] + 1)
    if op == "index":
        return (ev(e[2], env) >> e[3]) & 1
    if op == "rtindex":
        return (ev(e[2], env) >> ev(e[3], env)) & 1
    if op == "tobool":
        return ev(e[2], env)
    if op == "cbool":
        return int(bool(e[2]))
    if op == "cmp":
        a, b = e[3], e[4]
        if typ(a)[0] == "BV":
            x, y = ev(a, env), ev(b, env)
        else:
            x, y = num(a, env), num(b, env)
        return int({"lt": x < y, "le": x <= y, "gt": x > y, "ge": x >= y, "eq": x == y, "ne": x != y}[e[2]])
    if op == "chain":
        x, y, z = num(e[4], env), num(e[5], env), num(e[6], env)
        f = lambda o, p, q: {"lt": p < q, "le": p <= q, "gt": p > q, "ge": p >= q, "eq": p == q, "ne": p != q}[o]
        return int(f(e[2], x, y) and f(e[3], y, z))
    if op == "cmpnf":
        # comparison with the literals Null (all zeros) / Full (all ones: the largest Unsigned, -1 for Signed)
        ta = typ(e[3])
        lit = 0 if e[4] == "Null" else (-1 if ta[0] == "S" else mask(ta[1]))
        x = num(e[3], env)
        p_, q_ = (lit, x) if e[5] else (x, lit)
        return int({"lt": p_ < q_, "le": p_ <= q_, "gt": p_ > q_, "ge": p_ >= q_, "eq": p_ == q_, "ne": p_ != q_}[e[2]])
    if op == "chainn":
        f = lambda o, p, q: {"lt": p < q, "le": p <= q, "gt": p > q, "ge": p >= q, "eq": p == q, "ne": p != q}[o]
        vals = [num(x, env) for x in e[3]]
        return int(all(f(o, vals[j], vals[j + 1]) for j, o in enumerate(e[2].split(","))))
    if op == "land":
        return int(bool(ev(e[2], env)) and bool(ev(e[3], env)))
    if op == "lor":
        return int(bool(ev(e[2], env)) or bool(ev(e[3], env)))
    if op == "lnot":
        return int(not ev(e[2], env))
    if op == "any":
        return int(any(ev(x, env) for x in e[2]))
    if op == "all":
        return int(all(ev(x, env) for x in e[2]))
    raise AssertionError(op)


def rt_index_picks(e, acc=None):
    """outermost run-time index nodes whose index operand is a plain port (top-down, not descending into a pick)"""
    acc = [] if acc is None else acc
    if not (isinstance(e, list) and e and isinstance(e[0], str)):
        if isinstance(e, (list, tuple)):
            for x in e:
                if isinstance(x, (list, tuple)):
                    rt_index_picks(x, acc)
        return acc
    if e[0] == "rtindex" and e[3][0] == "port":
        acc.append(e)
        return acc
    for x in e[1:]:
        if isinstance(x, (list, tuple)):
            rt_index_picks(x, acc)
    return acc


def slice_chains(e, acc=None):
    """outermost slice-of-slice nodes (constant bounds, BitVector typed)"""
    acc = [] if acc is None else acc
    if not (isinstance(e, list) and e and isinstance(e[0], str)):
        if isinstance(e, (list, tuple)):
            for x in e:
                if isinstance(x, (list, tuple)):
                    slice_chains(x, acc)
        return acc
    if e[0] == "slice" and isinstance(e[2], list) and e[2] and e[2][0] == "slice":
        acc.append(e)
        return acc
    for x in e[1:]:
        if isinstance(x, (list, tuple)):
            slice_chains(x, acc)
    return acc


def port_nodes(e, name, acc=None):
    """all ["port", type, name] nodes of the tree"""
    acc = [] if acc is None else acc
    if not (isinstance(e, list) and e and isinstance(e[0], str)):
        if isinstance(e, (list, tuple)):
            for x in e:
                if isinstance(x, (list, tuple)):
                    port_nodes(x, name, acc)
        return acc
    if e[0] == "port":
        if e[2] == name:
            acc.append(e)
        return acc
    for x in e[1:]:
        if isinstance(x, (list, tuple)):
            port_nodes(x, name, acc)
    return acc
