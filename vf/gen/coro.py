"""Generator and renderer for async (coroutine) process bodies — workload of C01 / C04.

Program (JSON-able):
  prog = {"edge": "rising"|"falling", "step_cond": bool, "reset": None|{...}, "subs": [{"name","body"}],
          "body": [stmt...], "vars": {"v0": init, ...}, "nmark": int}
  stmt = ["sig", port, expr] | ["var", name, expr] | ["mark", k] | ["await", cond] | ["tick"] | ["halt"]
       | ["if", cond, then, else|None] | ["while", cond|"TRUE"|"FALSE", body] | ["break"] | ["continue"]
       | ["return"] | ["call", subname] | ["decl", name, init] | ["push", expr]   (self.ps ^= expr; ps has default 5)
  expr = ["k", n] | ["in", "d"] | ["v", name] | ["addk", expr, n] | ["add", expr, expr] | ["port", "q"]
  cond = ["in", "a"|"b"|"c"] | ["not", cond] | ["and", cond, cond] | ["or", cond, cond]
       | ["eqk", expr, n] | ["ltk", expr, n]
Ports: clk, (rst), (en), a b c : Bit inputs; d : Unsigned[4] input;
       marker : Unsigned[8] out, acc : Unsigned[8] out, q : Unsigned[4] out, r : Unsigned[4] out.
"""
from __future__ import annotations

W = 4
MASK = (1 << W) - 1


class Gen:
    def __init__(self, rs, max_depth=3, max_stmts=12, allow_subs=True, allow_halt=True):
        self.rs = rs
        self.max_depth = max_depth
        self.budget = max_stmts
        self.nmark = 0
        self.vars = ["v0", "v1"]
        self.subs = []
        self.allow_subs = allow_subs
        self.allow_halt = allow_halt
        self.locals = 0
        self.targets = ["q", "r"]
        self.reset_kind = None
        self.on_reset = False
        self.push = False
        self.comments = True  # std.comment(...) statements: emitted as VHDL comments, no effect on behaviour or timing
        self.ncomment = 0
        self.partial = False  # slice / bit writes of the targets that have a default (C04: noreset objects written partially)

    # ---- expressions -------------------------------------------------------------------------
    def expr(self, depth=0):
        rs = self.rs
        c = rs.below(8 if depth < 2 else 5)
        if c == 0:
            return ["k", rs.below(16)]
        if c == 1:
            return ["in", "d"]
        if c in (2, 3):
            return ["v", rs.choice(self.vars)]
        if c == 4:
            return ["port", rs.choice(["q", "r"])]
        if c in (5, 6):
            return ["addk", self.expr(depth + 1), rs.range(1, 3)]
        return ["add", self.expr(depth + 1), self.expr(depth + 1)]

    def bitcond(self, depth=0):
        rs = self.rs
        c = rs.below(7 if depth < 2 else 3)
        if c < 3:
            return ["in", "abc"[c]]
        if c == 3:
            return ["not", ["in", rs.choice("abc")]]
        if c == 4:
            return ["and", self.bitcond(depth + 1), self.bitcond(depth + 1)]
        if c == 5:
            return ["or", self.bitcond(depth + 1), self.bitcond(depth + 1)]
        return ["not", self.bitcond(depth + 1)]

    def cond(self):
        rs = self.rs
        c = rs.below(10)
        if c < 6:
            return self.bitcond()
        if c < 8:
            return ["eqk", ["v", rs.choice(self.vars)], rs.below(16)]
        if c == 8:
            return ["ltk", ["v", rs.choice(self.vars)], rs.range(1, 15)]
        return ["eqk", ["in", "d"], rs.below(16)]

    # ---- statements ----------------------------------------------------------------------------
    def mark(self):
        self.nmark += 1
        return ["mark", self.nmark]

    def simple(self):
        rs = self.rs
        if self.push and rs.below(5) == 0:
            return ["push", self.expr()]
        if self.partial and rs.below(5) == 0:
            hi = rs.below(W)
            lo = rs.below(hi + 1)
            src = rs.choice([["in", "d"], ["v", rs.choice(self.vars)], ["port", rs.choice(["q", "r"])], ["addk", ["in", "d"], rs.range(1, 3)]])
            return ["sigs", rs.choice([t for t in self.targets if t != "nd"]), hi, lo, src]
        if self.comments and rs.below(8) == 0:
            self.ncomment += 1
            return ["comment", f"c{self.ncomment}"]
        c = rs.below(6)
        if c < 2:
            return self.mark()
        if c == 2:
            return ["sig", rs.choice(self.targets), self.expr()]
        if c == 3:
            return ["var", rs.choice(self.vars), self.expr()]
        if c == 4:
            v = rs.choice(self.vars)
            return ["var", v, ["addk", ["v", v], 1]]
        return ["sig", rs.choice(self.targets), ["addk", ["port", rs.choice(["q", "r"])], 1]]

    def block(self, depth, in_loop, in_sub, susp_before=False, min_len=1):
        """susp_before: a statement that always suspends precedes in this iteration (continue is safe)"""
        rs = self.rs
        out = []
        n = rs.range(min_len, 4)
        susp = susp_before
        for i in range(n):
            if self.budget <= 0:
                break
            self.budget -= 1
            last = i == n - 1
            w = [(30, "simple"), (14, "await"), (8, "tick")]
            if depth < self.max_depth:
                w += [(12, "if"), (10, "while"), (5, "match")]
            if in_loop and last:
                w += [(6, "break")]
                if susp:
                    w += [(6, "continue")]
            if in_sub and last:
                w += [(4, "return")]
            if self.allow_subs and not in_sub and depth <= 1 and len(self.subs) < 2:
                w += [(5, "newsub")]
            if self.subs and not in_sub:
                w += [(5, "call")]
            k = rs.weighted(w)
            if k == "simple":
                out.append(self.simple())
            elif k == "await":
                c = self.bitcond() if rs.below(4) else self.cond()
                out.append(["await", c])
                susp = True
            elif k == "tick":
                out.append(["tick"])
                susp = True
            elif k == "if":
                then = self.block(depth + 1, in_loop, in_sub, susp)
                els = self.block(depth + 1, in_loop, in_sub, susp) if rs.below(2) else None
                out.append(["if", self.cond(), then, els])
            elif k == "match":
                # match on the input d with literal cases (lowered to one VHDL case statement when no case suspends); in a
                # third of them only the default branch may suspend
                ks = rs.sample(list(range(16)), rs.range(1, 3))
                plain = rs.below(3) == 0
                arms = [[kk, [self.simple()] if plain else self.block(depth + 1, in_loop, in_sub, susp)] for kk in ks]
                dflt = self.block(depth + 1, in_loop, in_sub, susp) if (plain or rs.below(3)) else None
                out.append(["match", arms, dflt])
            elif k == "while":
                c = rs.below(10)
                cond = "TRUE" if c < 3 else ("FALSE" if c == 3 else self.cond())
                body = self.block(depth + 1, True, in_sub, False)
                if cond == "TRUE" and not self._can_exit(body) and (not self.allow_halt or rs.below(6)):
                    body.append(["if", self.cond(), [["break"]], None])
                out.append(["while", cond, body])
                # entering a loop always costs a clock unless it is the first action of the process
                susp = susp or False
            elif k in ("break", "continue", "return"):
                out.append([k])
                break
            elif k == "newsub":
                name = f"sub{len(self.subs)}"
                save = self.budget
                self.budget = min(self.budget, 6)
                body = self.block(1, False, True, False)
                self.budget = save - 2
                self.subs.append({"name": name, "body": body})
                out.append(["call", name])
            elif k == "call":
                out.append(["call", rs.choice(self.subs)["name"]])
        if not out:
            out.append(self.mark())
        return out

    def _can_exit(self, body):
        for s in body:
            if s[0] in ("break", "return"):
                return True
            if s[0] == "if" and (self._can_exit(s[2]) or (s[3] and self._can_exit(s[3]))):
                return True
            if s[0] == "match" and (any(self._can_exit(b) for _, b in s[1]) or (s[2] and self._can_exit(s[2]))):
                return True
        return False

    def program_undefaulted(self):
        """a single-state body that drives ONLY objects without a default / marked noreset (no marks, no variables, no
        suspension): the context has nothing to reset, but it still must not execute while its reset is active"""
        rs = self.rs
        self.targets = ["nd", "nr"]

        def stmt(depth):
            c = rs.below(5 if depth < 2 else 3)
            src = rs.choice([["in", "d"], ["addk", ["in", "d"], rs.range(1, 3)], ["port", rs.choice(["q", "r"])], ["k", rs.below(16)]])
            if c < 2:
                return ["sig", rs.choice(self.targets), src]
            if c == 2:
                hi = rs.below(W)
                lo = rs.below(hi + 1)
                return ["sigs", "nr", hi, lo, ["in", "d"]]
            return ["if", self.bitcond(), [stmt(depth + 1) for _ in range(rs.range(1, 2))], [stmt(depth + 1)] if rs.below(2) else None]

        body = [stmt(0) for _ in range(rs.range(1, 4))]
        return {
            "edge": "falling" if rs.below(6) == 0 else "rising",
            "step_cond": rs.below(4) == 0,
            "reset": {"kind": self.reset_kind, "on_reset": False, "extra_ports": True, "records": False},
            "subs": [],
            "body": body,
            "vars": {v: rs.below(16) for v in self.vars},
            "nmark": 0,
            "push": False,
        }

    def program(self):
        rs = self.rs
        body = self.block(0, False, False, False, min_len=2)
        if rs.below(5) == 0:
            # the process BEGINS with a loop (its header shares the first state): a break sits before the first suspension of
            # the body, a continue is reached in a later state, and nothing but plain statements follows the loop
            inner = [["if", self.cond(), ([self.simple()] if rs.below(2) else []) + [["break"]], None], ["await", self.bitcond()] if rs.below(2) else ["tick"]]
            if rs.below(2):
                inner.append(self.simple())
            inner.append(["if", self.cond(), ([self.simple()] if rs.below(2) else []) + [["continue"]], None])
            inner.append(self.simple())
            if rs.below(2):
                inner.append(["tick"])
            body = [["while", self.cond() if rs.below(3) else "TRUE", inner], self.mark()] + ([self.simple()] if rs.below(2) else [])
        if self.allow_subs and rs.below(3) == 0:
            # an awaited sub-coroutine whose loop can be left in the same state in two ways (its condition, a break / return),
            # with statements following the call
            name = f"sub{len(self.subs)}"
            inner = [self.simple(), ["if", self.cond(), [["break"] if rs.below(2) else ["return"]], None]]
            if rs.below(2):
                inner.append(["tick"] if rs.below(2) else ["await", self.bitcond()])
            if rs.below(3) == 0:
                inner.insert(0, ["await", self.bitcond()])
            self.subs.append({"name": name, "body": [["while", self.cond(), inner]] + ([self.simple()] if rs.below(2) else [])})
            pos = rs.range(0, len(body))
            body[pos:pos] = [["call", name], self.mark(), self.simple()]
        if self.allow_halt and rs.below(12) == 0:
            body.append(["halt"])
        reset = None
        if self.reset_kind is not None:
            reset = {"kind": self.reset_kind, "on_reset": self.on_reset, "extra_ports": "nd" in self.targets, "records": "rx" in self.targets}
        return {
            "edge": "falling" if rs.below(6) == 0 else "rising",
            "step_cond": rs.below(4) == 0,
            "reset": reset,
            "subs": self.subs,
            "body": body,
            "vars": {v: rs.below(16) for v in self.vars},
            "nmark": self.nmark,
            "push": self.push,
        }


# ---- rendering -------------------------------------------------------------------------------------

def const_val(e):
    k = e[0]
    if k == "k":
        return e[1] & MASK
    if k == "addk":
        v = const_val(e[1])
        return None if v is None else (v + e[2]) & MASK
    if k == "add":
        a, b = const_val(e[1]), const_val(e[2])
        return None if a is None or b is None else (a + b) & MASK
    return None


def r_expr(e):
    k = e[0]
    cv = const_val(e)
    if cv is not None:
        return str(cv)
    if k == "k":
        return str(e[1])
    if k == "in":
        return f"self.{e[1]}"
    if k == "v":
        return e[1]
    if k == "port":
        return f"self.{e[1]}"
    if k == "addk":
        return f"({r_expr(e[1])} + {e[2]})"
    if k == "add":
        a, b = e[1], e[2]
        if const_val(a) is not None:  # keep a hardware operand on the left so the width rule is the 4-bit one
            a, b = b, a
        return f"({r_expr(a)} + {r_expr(b)})"
    raise AssertionError(k)


def expr_is_const(e):
    return e[0] == "k"


def r_cond(c):
    k = c[0]
    if k == "in":
        return f"self.{c[1]}"
    if k == "not":
        return f"(~{r_cond(c[1])})"
    if k == "and":
        return f"({r_cond(c[1])} & {r_cond(c[2])})"
    if k == "or":
        return f"({r_cond(c[1])} | {r_cond(c[2])})"
    if k == "eqk":
        return f"({r_expr(c[1])} == {c[2]})"
    if k == "ltk":
        return f"({r_expr(c[1])} < {c[2]})"
    raise AssertionError(k)


def r_await(c):
    if c[0] == "in":
        return f"await self.{c[1]}"
    return f"await cohdl.expr({r_cond(c)})"


TARGET_EXPR = {"rx": "rres.x", "nx": "rno.x"}  # members of record signals (std.Signal[Rec] / std.NoresetSignal[Rec])


def r_target(t):
    return TARGET_EXPR.get(t, f"self.{t}")


def r_block(stmts, ind, out):
    pad = "    " * ind
    for s in stmts:
        k = s[0]
        if k == "sig":
            e = s[2]
            out.append(f"{pad}{r_target(s[1])} <<= {r_expr(e)}")
        elif k == "comment":
            out.append(f"{pad}std.comment({s[1]!r})")
        elif k == "sigs":
            _, t, hi, lo, e = s
            if hi == lo:
                out.append(f"{pad}{r_target(t)}[{hi}] <<= ({r_expr(e)})[0]")
            else:
                out.append(f"{pad}{r_target(t)}[{hi}:{lo}] <<= ({r_expr(e)})[{hi - lo}:0]")
        elif k == "var":
            out.append(f"{pad}{s[1]} @= {r_expr(s[2])}")
        elif k == "push":
            out.append(f"{pad}self.ps ^= {r_expr(s[1])}")
        elif k == "mark":
            out.append(f"{pad}self.marker <<= {s[1]}")
            out.append(f"{pad}accv @= accv + 1")
            out.append(f"{pad}self.acc <<= accv")
        elif k == "await":
            out.append(pad + r_await(s[1]))
        elif k == "tick":
            out.append(f"{pad}await true")
        elif k == "halt":
            out.append(f"{pad}await false")
        elif k == "if":
            out.append(f"{pad}if {r_cond(s[1])}:")
            r_block(s[2], ind + 1, out)
            if s[3] is not None:
                out.append(f"{pad}else:")
                r_block(s[3], ind + 1, out)
        elif k == "match":
            out.append(f"{pad}match self.d:")
            for kk, b in s[1]:
                out.append(f"{pad}    case {kk}:")
                r_block(b, ind + 2, out)
            if s[2] is not None:
                out.append(f"{pad}    case _:")
                r_block(s[2], ind + 2, out)
        elif k == "while":
            c = {"TRUE": "True", "FALSE": "False"}.get(s[1]) if isinstance(s[1], str) else r_cond(s[1])
            out.append(f"{pad}while {c}:")
            r_block(s[2], ind + 1, out)
        elif k in ("break", "continue", "return"):
            out.append(pad + k)
        elif k == "call":
            out.append(f"{pad}await {s[1]}()")
        else:
            raise AssertionError(k)


def uses_var_write(stmts, acc):
    for s in stmts:
        if s[0] == "var":
            acc.add(s[1])
        elif s[0] == "mark":
            acc.add("accv")
        elif s[0] == "if":
            uses_var_write(s[2], acc)
            if s[3]:
                uses_var_write(s[3], acc)
        elif s[0] == "while":
            uses_var_write(s[2], acc)
        elif s[0] == "match":
            for _, b in s[1]:
                uses_var_write(b, acc)
            if s[2]:
                uses_var_write(s[2], acc)


RESET_KINDS = {
    "sync_high": "std.Reset(self.rst)",
    "sync_low": "std.Reset(self.rst, active_low=True)",
    "async_high": "std.Reset(self.rst, is_async=True)",
    "async_low": "std.Reset(self.rst, active_low=True, is_async=True)",
}


def render(prog, attrs=None):
    L = [
        "from __future__ import annotations",
        "import cohdl",
        "from cohdl import Bit, BitVector, Unsigned, Signed, Port, Signal, Variable, Null, Full, true, false",
        "from cohdl import std",
        "",
    ]
    if prog.get("tap"):
        # a sub-entity whose inout port is connected to one of the targets (it never drives it): the connection must not
        # change the target's default / reset behaviour
        L += ["class Tap(cohdl.Entity):", f"    p = Port.inout(Unsigned[{W}])", "    def architecture(self):", "        pass", ""]
    if (prog.get("reset") or {}).get("records"):
        L += ["class Rec(std.Record):", f"    x: Unsigned[{W}]", "    f: Bit", ""]
    L += [
        "class E(cohdl.Entity):",
        "    clk = Port.input(Bit)",
    ]
    if prog.get("reset"):
        L.append("    rst = Port.input(Bit)")
        if prog["reset"].get("derive"):
            L.append("    xr = Port.input(Bit)")
    if prog.get("step_cond"):
        L.append("    en = Port.input(Bit)")
    L += [
        "    a = Port.input(Bit)",
        "    b = Port.input(Bit)",
        "    c = Port.input(Bit)",
        f"    d = Port.input(Unsigned[{W}])",
        "    marker = Port.output(Unsigned[8], default=0)",
        "    acc = Port.output(Unsigned[8], default=0)",
        f"    q = Port.output(Unsigned[{W}], default=0)",
        f"    r = Port.output(Unsigned[{W}], default=0)",
    ]
    if prog.get("push"):
        L.append(f"    ps = Port.output(Unsigned[{W}], default=5)")
    rst = prog.get("reset") or {}
    if rst.get("extra_ports"):
        L += [f"    nd = Port.output(Unsigned[{W}])", f"    nr = Port.output(Unsigned[{W}], default=3, noreset=True)"]
    if rst.get("on_reset"):
        L += [f"    orr = Port.output(Unsigned[{W}], default=0)"]
    if rst.get("records"):
        L += [f"    rx = Port.output(Unsigned[{W}])", f"    nx = Port.output(Unsigned[{W}])"]
    L += [
        "",
        "    def architecture(self):",
        "        accv = Variable[Unsigned[8]](0)",
    ]
    if prog.get("tap"):
        L.append(f"        Tap(p=self.{prog['tap']})")
    if rst.get("records"):
        # compound objects: a record that is reset and one created with the noreset wrapper; the outputs show member x
        L += ["        rres = std.Signal[Rec](x=6, f=True)", "        rno = std.NoresetSignal[Rec](x=9, f=False)", "        std.concurrent_assign(self.rx, rres.x)", "        std.concurrent_assign(self.nx, rno.x)"]
    for v, init in prog["vars"].items():
        L.append(f"        {v} = Variable[Unsigned[{W}]]({init})")
    for sub in prog["subs"]:
        L.append(f"        async def {sub['name']}():")
        w = set()
        uses_var_write(sub["body"], w)
        if w:
            L.append(f"            nonlocal {', '.join(sorted(w))}")
        r_block(sub["body"], 3, L)
    clk = "std.Clock(self.clk)" if prog["edge"] == "rising" else "std.Clock(self.clk, active_edge=std.Clock.Edge.FALLING)"
    args = [clk]
    if prog.get("reset"):
        args.append(RESET_KINDS[prog["reset"]["kind"]])
    kw = ""
    if prog.get("step_cond"):
        kw += ", step_cond=lambda: self.en"
    if attrs:
        kw += ", attributes=" + repr(attrs)
    if rst.get("on_reset"):
        L.append("        def on_rst():")
        L.append("            self.orr <<= 9")
        kw += ", on_reset=on_rst"
    if rst.get("derive"):
        # the context is derived from one that already has a reset: a second reset source (input xr) is OR-ed / AND-ed in
        dv = rst["derive"]
        if dv["op"] == "replace":
            # the base context has ANOTHER reset (pin xr; or none at all): with_params(reset=...) replaces it, the derived
            # context is reset by rst alone, with the replacement's polarity and kind
            bargs = [clk] + ([f"std.Reset(self.xr, active_low={bool(dv['low'])}, is_async={bool(dv.get('base_async'))})"] if dv.get("base") == "xr" else [])
            L.append(f"        base_ctx = std.sequential({', '.join(bargs)}{kw})")
            L.append(f"        ctx = base_ctx.with_params(reset={RESET_KINDS[prog['reset']['kind']]})")
        else:
            L.append(f"        base_ctx = std.sequential({', '.join(args)}{kw})")
            L.append(f"        ctx = base_ctx.{dv['op']}_reset(self.xr, active_low={bool(dv['low'])})")
        L.append("        @ctx")
    else:
        L.append(f"        @std.sequential({', '.join(args)}{kw})")
    L.append("        async def proc():")
    w = set()
    uses_var_write(prog["body"], w)
    # every variable written anywhere (also through subs defined above) must be declared nonlocal where written
    if w:
        L.append(f"            nonlocal {', '.join(sorted(w))}")
    r_block(prog["body"], 3, L)
    return "\n".join(L) + "\n"


def count_nodes(stmts):
    n = 0
    for s in stmts:
        n += 1
        if s[0] == "if":
            n += count_nodes(s[2]) + (count_nodes(s[3]) if s[3] else 0)
        elif s[0] == "while":
            n += count_nodes(s[2])
        elif s[0] == "match":
            n += sum(count_nodes(b) for _, b in s[1]) + (count_nodes(s[2]) if s[2] else 0)
    return n


def shape(prog):
    """structure hash input: statement kinds only"""

    def sh(stmts):
        out = []
        for s in stmts:
            if s[0] == "match":
                out.append(("match", tuple(sh(b) for _, b in s[1]), sh(s[2]) if s[2] else None))
            elif s[0] == "if":
                out.append(("if", sh(s[2]), sh(s[3]) if s[3] else None))
            elif s[0] == "while":
                out.append(("while", s[1] if isinstance(s[1], str) else "c", sh(s[2])))
            else:
                out.append(s[0])
        return tuple(out)

    return (sh(prog["body"]), tuple(sh(s["body"]) for s in prog["subs"]), prog["edge"], prog["step_cond"], bool(prog.get("reset")), bool(prog.get("push")))
