"""Turning generated CoHDL source text into a live module and compiling entities with the real
compiler.  Sources never touch the disk: they are registered in linecache so that
inspect.getsource (which CoHDL uses) finds them."""
from __future__ import annotations

import contextlib
import io
import linecache
import sys
import types

_counter = [0]


class Rejected(Exception):
    """the real compiler refused the design (exception text and innermost cohdl frame kept)"""

    def __init__(self, exc):
        super().__init__(f"{type(exc).__name__}: {exc}")
        self.exc_type = type(exc).__name__
        self.message = str(exc)
        self.site = innermost_cohdl_frame(exc)


def innermost_cohdl_frame(exc):
    tb = exc.__traceback__
    site = None
    while tb is not None:
        fn = tb.tb_frame.f_code.co_filename
        if "/cohdl/" in fn:
            site = (fn.split("/cohdl/", 1)[1], tb.tb_frame.f_code.co_name)
        tb = tb.tb_next
    return site


def load_module(src, name=None, fname=None):
    """fname: load under this fixed file name (a design file that was edited and loaded again) instead of a unique one"""
    _counter[0] += 1
    name = name or f"vfgen_{_counter[0]}"
    fname = fname or f"<vfgen:{name}:{_counter[0]}>"
    lines = src.splitlines(keepends=True)
    linecache.cache[fname] = (len(src), None, lines, fname)
    mod = types.ModuleType(name)
    mod.__file__ = fname
    code = compile(src, fname, "exec")
    sys.modules[name] = mod
    try:
        exec(code, mod.__dict__)
    finally:
        sys.modules.pop(name, None)
    return mod


def unload(mod):
    linecache.cache.pop(getattr(mod, "__file__", None), None)


def compile_entity(entity, sidecar=False, reserved=None):
    """-> VHDL text (and the vhdl library object when sidecar=True); raises Rejected"""
    from cohdl import std

    buf = io.StringIO()
    try:
        with contextlib.redirect_stdout(buf), contextlib.redirect_stderr(buf):
            if sidecar:
                lib = std.VhdlCompiler.to_vhdl_library(entity) if reserved is None else std.VhdlCompiler.to_vhdl_library(entity, additional_reserved_names=set(reserved))
                text = lib.write()
                return text, lib
            if reserved is not None:
                return std.VhdlCompiler.to_string(entity, additional_reserved_names=set(reserved))
            return std.VhdlCompiler.to_string(entity)
    except (KeyboardInterrupt, SystemExit, MemoryError):
        raise
    except BaseException as e:
        raise Rejected(e) from None


def compile_source(src, entity_name="E", sidecar=False, reserved=None, fname=None):
    """define the module (definition-time errors are rejections too) and compile entity_name"""
    buf = io.StringIO()
    try:
        with contextlib.redirect_stdout(buf), contextlib.redirect_stderr(buf):
            mod = load_module(src, fname=fname)
    except (KeyboardInterrupt, SystemExit, MemoryError):
        raise
    except BaseException as e:
        raise Rejected(e) from None
    try:
        return compile_entity(getattr(mod, entity_name), sidecar=sidecar, reserved=reserved)
    finally:
        unload(mod)


def temp_classifier(lib):
    """sidecar: (entity, process label, variable name) -> True if CoHDL declares it as a Temporary"""
    table = {}
    try:
        for ent in lib._entities:
            ename = ent._name if hasattr(ent, "_name") else None
            arch = ent.architecture() if callable(getattr(ent, "architecture", None)) else getattr(ent, "_arch", None)
            if arch is None:
                continue
            for inst in getattr(arch, "_instances", []):
                sc = getattr(inst, "_scope", None)
                if sc is None:
                    continue
                if type(inst).__name__ != "Process":
                    continue
                label = sc.lookup_name(inst)
                if label is None:
                    continue
                for n, o in sc.declarations().items():
                    if type(o).__name__ not in ("Temporary", "Variable"):
                        continue
                    table[(str(ename).lower(), str(label).lower(), n.lower())] = type(o).__name__
    except Exception:
        return None

    def classify(entity, label, name):
        k = table.get((str(entity).lower(), str(label).lower() if label else None, name.lower()))
        if k is None:
            return None
        return k == "Temporary"

    return classify
