def run(*a, **kw):
    raise RuntimeError("cocotb_test.simulator.run must not be reached: run_cocotb_tests is patched by vf.selftest.conformance")
