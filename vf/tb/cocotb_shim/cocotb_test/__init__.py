from . import simulator  # noqa: F401
