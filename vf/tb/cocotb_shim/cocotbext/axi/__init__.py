from vf.tb.shim_axi import AxiLiteBus, AxiLiteMaster  # noqa: F401
