class SpiSlaveBase:  # SPI testbenches are outside the conformance corpus
    def __init__(self, *a, **kw):
        raise NotImplementedError("cocotbext.spi is not provided")
class SpiBus:
    @classmethod
    def from_entity(cls, *a, **kw):
        raise NotImplementedError("cocotbext.spi is not provided")
    def __init__(self, *a, **kw):
        raise NotImplementedError("cocotbext.spi is not provided")
class SpiConfig:
    def __init__(self, *a, **kw):
        pass
