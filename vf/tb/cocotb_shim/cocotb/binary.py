from vf.tb.shim_runtime import BinaryValue  # noqa: F401
