from vf.tb.shim_runtime import RisingEdge, FallingEdge, Edge, Timer, ReadOnly, ReadWrite, NextTimeStep, ClockCycles, Combine, First, Join  # noqa: F401
