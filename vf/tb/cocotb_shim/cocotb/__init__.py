"""Minimal cocotb stand-in over VSIM (see vf/tb/shim_runtime.py for the scheduler)."""
from vf.tb.shim_runtime import test, start_soon, fork  # noqa: F401
from . import triggers, clock, binary  # noqa: F401
