from vf.tb.shim_runtime import Clock  # noqa: F401
