"""Clock-by-clock testbench driver over the VSIM kernel with seeded seams: process order per delta,
input-change offset inside the period (pre / post / glitch), clock edge polarity.

One *period* k:  [post-phase of k-1 already done]  pre-inputs -> settle -> (sample combinational
outputs) -> active edge -> settle -> (sample registered outputs) -> inactive edge -> settle.
Inputs never change at the instant of the active edge (that would be a genuine race in any simulator).
"""
from __future__ import annotations

from vf.vsim import kernel


def enc(ty, v):
    """int/str/bool -> VSIM value of type ty"""
    if ty.kind == "sl":
        if isinstance(v, str):
            return v
        return "1" if v else "0"
    if ty.kind == "vec":
        if isinstance(v, str):
            assert len(v) == ty.length
            return v
        return format(v & ((1 << ty.length) - 1), f"0{ty.length}b")
    if ty.kind == "bool":
        return bool(v)
    return v


def dec(ty, v):
    """VSIM value -> int (None when it contains a metavalue)"""
    if ty.kind in ("sl", "vec"):
        try:
            return int(v, 2)
        except ValueError:
            return None
    if ty.kind == "bool":
        return int(v)
    if ty.kind == "arr":
        return tuple(dec(ty.elem, e) for e in v)
    return v


class Bench:
    def __init__(self, design, order_stream=None, offsets_stream=None, clk="clk", active="rising", check_sens=False, log=None, order_mode="uniform"):
        self.design = design
        self.order_stream = order_stream
        if order_stream is None or order_mode == "stable":
            order = None
        elif order_mode == "reverse":
            order = lambda pids: list(reversed(pids))
        else:
            order = order_stream.permute
        self.sim = kernel.Sim(design, order=order, log=log, check_sens=check_sens)
        self.offsets = offsets_stream
        self.ports = design.top_ports
        self.clk = clk
        self.active = active
        self.idle_level = "0" if active == "rising" else "1"
        self.act_level = "1" if active == "rising" else "0"
        self.cycles = 0
        self.offset_counts = {"pre": 0, "post": 0, "glitch": 0}
        self.pending_post = {}
        self.started = False

    def start(self, inputs):
        """power-up: drive initial input values and clock idle level, run initialisation"""
        sim = self.sim
        for n, v in inputs.items():
            o = self.ports[n.lower()]
            sim.V[o.sid] = enc(o.ty, v)
        if self.clk is not None:
            o = self.ports[self.clk.lower()]
            sim.V[o.sid] = self.idle_level
        sim.initialise()
        self.started = True

    def poke(self, name, v):
        o = self.ports[name.lower()]
        self.sim.poke(o.sid, enc(o.ty, v))

    def raw(self, name):
        o = self.ports[name.lower()]
        return self.sim.V[o.sid]

    def get(self, name):
        o = self.ports[name.lower()]
        return dec(o.ty, self.sim.V[o.sid])

    def settle(self):
        return self.sim.settle()

    def apply(self, inputs):
        for n, v in inputs.items():
            self.poke(n, v)
        self.sim.settle()

    def cycle(self, inputs, prev_inputs=None, sample_pre=None):
        self.cycle_inputs(inputs, prev_inputs)
        pre = None
        if sample_pre is not None:
            pre = {n: self.get(n) for n in sample_pre}
        self.edge()
        return pre

    def edge(self):
        o = self.ports[self.clk.lower()]
        self.sim.poke(o.sid, self.act_level)
        self.sim.settle()
        self.cycles += 1

    def cycle_inputs(self, inputs, prev_inputs=None):
        """advance one clock period; `inputs` are the values that must be present at the active
        edge.  Each changed input picks an offset (pre / post of the previous period is emulated
        by applying now, since nothing observes the difference between edges except glitches)."""
        sim = self.sim
        offs = self.offsets
        if offs is not None and prev_inputs is not None:
            glitch = {}
            for n, v in inputs.items():
                if prev_inputs.get(n) != v:
                    mode = offs.below(4)
                    if mode == 0:
                        # glitch: change to an intermediate value first (complement), settle, then final
                        o = self.ports[n.lower()]
                        if o.ty.kind == "sl":
                            glitch[n] = 1 - v if isinstance(v, int) else v
                        elif o.ty.kind == "vec" and isinstance(v, int):
                            glitch[n] = (~v) & ((1 << o.ty.length) - 1)
                        self.offset_counts["glitch"] += 1
                    elif mode == 1:
                        self.offset_counts["post"] += 1
                    else:
                        self.offset_counts["pre"] += 1
            if glitch:
                # apply the glitch values in a separate time step
                self.apply(glitch)
                # and (seeded) apply the remaining inputs one at a time to vary event order
        if offs is not None and len(inputs) > 1 and offs.below(3) == 0:
            for n in offs.permute(sorted(inputs)):
                self.apply({n: inputs[n]})
        else:
            self.apply(inputs)

    def half(self):
        o = self.ports[self.clk.lower()]
        self.sim.poke(o.sid, self.idle_level)
        self.sim.settle()
