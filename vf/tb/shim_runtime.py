"""A small cocotb-compatible runtime over the VSIM kernel, sufficient to run the upstream CoHDL
testbenches (tests/reference_builds) unmodified.  Deterministic: coroutines are resumed in
creation order, time is a discrete integer (1 step = 1 fs, like ghdl's default resolution).
"""
from __future__ import annotations

import heapq

from vf.vsim import ieee as I

_UNITS = {"step": 1, None: 1, "fs": 1, "ps": 10**3, "ns": 10**6, "us": 10**9, "ms": 10**12, "sec": 10**15}

_current = None  # the running Scheduler


def test(*a, **kw):
    def deco(f):
        f._is_cocotb_test = True
        f._cocotb_kw = kw
        return f

    if len(a) == 1 and callable(a[0]) and not kw:
        return deco(a[0])
    return deco


class TestFailure(AssertionError):
    pass


class SimTimeoutError(Exception):
    pass


class BinaryValue:
    def __init__(self, value=None, n_bits=None, bigEndian=True, binaryRepresentation=0, bits=None):
        self._n_bits = n_bits if n_bits is not None else bits
        self._str = ""
        if isinstance(value, str):
            self._str = value
            if self._n_bits is None:
                self._n_bits = len(value)
        elif isinstance(value, int):
            n = self._n_bits if self._n_bits is not None else max(1, value.bit_length())
            self._str = format(value & ((1 << n) - 1), f"0{n}b")
            self._n_bits = n

    @property
    def binstr(self):
        return self._str

    @property
    def n_bits(self):
        return self._n_bits

    @property
    def is_resolvable(self):
        return all(c in "01LH" for c in self._str)

    def _resolved(self):
        s = self._str.replace("L", "0").replace("H", "1")
        if not s or any(c not in "01" for c in s):
            raise ValueError(f"Unresolvable bit in binary string: {self._str!r}")
        return s

    @property
    def integer(self):
        return int(self._resolved(), 2)

    value = integer

    @property
    def signed_integer(self):
        s = self._resolved()
        v = int(s, 2)
        if s[0] == "1":
            v -= 1 << len(s)
        return v

    def get_value_signed(self):
        return self.signed_integer

    def __int__(self):
        return self.integer

    def __index__(self):
        return self.integer

    def __bool__(self):
        return self.integer != 0

    def __eq__(self, other):
        if isinstance(other, BinaryValue):
            return self._str == other._str
        if isinstance(other, int):
            try:
                return self.integer == other
            except ValueError:
                return False
        if isinstance(other, str):
            return self._str == other
        return NotImplemented

    def __ne__(self, other):
        r = self.__eq__(other)
        return r if r is NotImplemented else not r

    def __hash__(self):
        return hash(self._str)

    def __lt__(self, o):
        return int(self) < int(o)

    def __le__(self, o):
        return int(self) <= int(o)

    def __gt__(self, o):
        return int(self) > int(o)

    def __ge__(self, o):
        return int(self) >= int(o)

    def __add__(self, o):
        return int(self) + int(o)

    def __radd__(self, o):
        return int(o) + int(self)

    def __sub__(self, o):
        return int(self) - int(o)

    def __rsub__(self, o):
        return int(o) - int(self)

    def __and__(self, o):
        return int(self) & int(o)

    def __or__(self, o):
        return int(self) | int(o)

    def __xor__(self, o):
        return int(self) ^ int(o)

    def __rshift__(self, o):
        return int(self) >> int(o)

    def __lshift__(self, o):
        return int(self) << int(o)

    def __invert__(self):
        return BinaryValue("".join("1" if c == "0" else "0" for c in self._resolved()))

    def __len__(self):
        return len(self._str)

    def __getitem__(self, key):
        # cocotb: index 0 is the leftmost character when bigEndian... upstream tests never index
        return BinaryValue(self._str[key] if isinstance(key, int) else self._str[key])

    def __str__(self):
        return self._str

    def __repr__(self):
        return f"BinaryValue({self._str!r})"


class SigHandle:
    """dut.<port> : value access to one top-level signal"""

    def __init__(self, sched, name, obj):
        object.__setattr__(self, "_sched", sched)
        object.__setattr__(self, "_name", name)
        object.__setattr__(self, "_obj", obj)

    def get_definition_name(self):
        return self._name

    @property
    def _path(self):
        return self._name

    def _encode(self, v):
        ty = self._obj.ty
        if isinstance(v, BinaryValue):
            v = v.binstr if ty.kind in ("vec",) else v.integer
        if hasattr(v, "value") and not isinstance(v, (int, str)):
            v = v.value
        if ty.kind == "sl":
            if isinstance(v, str):
                return v
            if isinstance(v, bool):
                v = int(v)
            if v not in (0, 1):
                raise ValueError(f"value {v} does not fit std_logic {self._name}")
            return str(v)
        if ty.kind == "vec":
            n = ty.length
            if isinstance(v, str):
                if len(v) != n:
                    raise ValueError(f"string {v!r} has wrong length for {self._name}")
                return v
            v = int(v)
            if v < 0:
                if v < -(1 << (n - 1)):
                    raise OverflowError(f"value {v} does not fit {self._name}[{n}]")
                v &= (1 << n) - 1
            if v >> n:
                raise OverflowError(f"value {v} does not fit {self._name}[{n}]")
            return format(v, f"0{n}b")
        if ty.kind == "bool":
            return bool(v)
        if ty.kind == "int":
            return int(v)
        if ty.kind == "enum":
            return int(v)
        raise TypeError(f"cannot assign to {self._name}")

    @property
    def value(self):
        v = self._sched.sim.V[self._obj.sid]
        for p, n in self._obj.path:
            v = v[p] if n is None else v[p : p + n]
        ty = self._obj.ty
        if ty.kind in ("sl", "vec"):
            return BinaryValue(v)
        if ty.kind == "bool":
            return int(v)
        return v

    @value.setter
    def value(self, v):
        self._sched.write(self._obj, self._encode(v))

    def setimmediatevalue(self, v):
        self.value = v

    def __len__(self):
        return self._obj.ty.length or 1

    def __le__(self, v):  # deprecated "dut.x <= v" syntax
        self.value = v

    def __eq__(self, other):
        if isinstance(other, SigHandle):
            return self is other
        return self.value == other

    def __ne__(self, other):
        if isinstance(other, SigHandle):
            return self is not other
        return self.value != other

    def __hash__(self):
        return id(self)

    def __int__(self):
        return int(self.value)


class Dut:
    def __init__(self, sched, design):
        object.__setattr__(self, "_sched", sched)
        object.__setattr__(self, "_design", design)
        object.__setattr__(self, "_handles", {})
        object.__setattr__(self, "_name", design.top_name)

    def __getattr__(self, name):
        h = self._handles.get(name.lower())
        if h is None:
            o = self._design.top_ports.get(name.lower())
            if o is None:
                raise AttributeError(f"{self._design.top_name} contains no object named {name}")
            h = SigHandle(self._sched, name, o)
            self._handles[name.lower()] = h
        return h

    def __setattr__(self, name, v):
        raise AttributeError("assign through .value")


class Trigger:
    def __await__(self):
        return (yield self)

    def prime(self, sched, task):
        raise NotImplementedError


class Timer(Trigger):
    def __init__(self, time=None, units="step", *, time_ps=None):
        if time is None:
            time, units = time_ps, "ps"
        self.steps = int(round(time * _UNITS[units]))
        if self.steps <= 0:
            raise ValueError("Timer with non-positive time")

    def prime(self, sched, task):
        sched.at(sched.now + self.steps, lambda: sched.wake(task, self))


class NextTimeStep(Trigger):
    def prime(self, sched, task):
        sched.next_time_waiters.append((task, self))


class ReadOnly(Trigger):
    def prime(self, sched, task):
        sched.readonly_waiters.append((task, self))


class ReadWrite(Trigger):
    def prime(self, sched, task):
        sched.wake(task, self)


class _EdgeBase(Trigger):
    want = None

    def __init__(self, handle):
        self.handle = handle

    def prime(self, sched, task):
        sched.edge_waiters.append((self, task))

    def fired(self, sim):
        o = self.handle._obj
        old = sim.E.get(o.sid)
        if old is None:
            return False
        new = sim.V[o.sid]
        for p, n in o.path:
            old = old[p] if n is None else old[p : p + n]
            new = new[p] if n is None else new[p : p + n]
        if old == new:
            return False
        if self.want is None:
            return True
        return new == self.want


class RisingEdge(_EdgeBase):
    want = "1"


class FallingEdge(_EdgeBase):
    want = "0"


class Edge(_EdgeBase):
    want = None


class ClockCycles(Trigger):
    def __init__(self, handle, num_cycles, rising=True):
        self.handle, self.n, self.rising = handle, num_cycles, rising

    def __await__(self):
        for _ in range(self.n):
            yield (RisingEdge if self.rising else FallingEdge)(self.handle)
        return self


class Join(Trigger):
    def __init__(self, task):
        self.task = task

    def prime(self, sched, task):
        if self.task.done:
            sched.wake(task, self)
        else:
            self.task.joiners.append((task, self))


class Combine(Trigger):
    def __init__(self, *triggers):
        self.triggers = triggers

    def __await__(self):
        for t in self.triggers:
            if isinstance(t, Task):
                yield Join(t)
            else:
                yield from t.__await__()
        return self


class First(Trigger):
    def __init__(self, *triggers):
        raise NotImplementedError("First is not provided by the shim")


class Task:
    _n = 0

    def __init__(self, coro, sched):
        self.coro = coro
        self.sched = sched
        self.done = False
        self.result = None
        self.exc = None
        self.joiners = []
        Task._n += 1
        self.id = Task._n

    def __await__(self):
        if not self.done:
            yield Join(self)
        if self.exc is not None:
            raise self.exc
        return self.result

    def join(self):
        return Join(self)

    def kill(self):
        if not self.done:
            self.done = True
            self.coro.close()

    def step(self):
        if self.done:
            return
        try:
            trig = self.coro.send(None)
        except StopIteration as e:
            self.done = True
            self.result = e.value
            for t, tr in self.joiners:
                self.sched.wake(t, tr)
            return
        except BaseException as e:
            self.done = True
            self.exc = e
            self.sched.failed(self, e)
            return
        if isinstance(trig, Task):
            trig = Join(trig)
        trig.prime(self.sched, self)


class Clock:
    def __init__(self, signal, period, units="step"):
        self.signal = signal
        self.period = int(round(period * _UNITS[units]))
        self.half = self.period // 2
        if self.half <= 0:
            raise ValueError("clock period too small")

    async def start(self, cycles=None, start_high=True):
        t = Timer(self.half)
        t2 = Timer(self.period - self.half)
        n = 0
        while cycles is None or n < cycles:
            self.signal.value = 1 if start_high else 0
            await t
            self.signal.value = 0 if start_high else 1
            await t2
            n += 1


class Scheduler:
    def __init__(self, sim, design, max_time=None, max_events=50_000_000):
        self.sim = sim
        self.design = design
        self.now = 0
        self.heap = []
        self.seq = 0
        self.ready = []
        self.edge_waiters = []
        self.readonly_waiters = []
        self.next_time_waiters = []
        self.failure = None
        self.max_time = max_time
        self.max_events = max_events
        self.main = None
        self.writes_allowed = True

    def at(self, time, fn):
        self.seq += 1
        heapq.heappush(self.heap, (time, self.seq, fn))

    def wake(self, task, trig):
        self.ready.append(task)

    def write(self, obj, val):
        if not self.writes_allowed:
            raise RuntimeError("write during ReadOnly phase")
        self.sim.poke(obj.sid, val, tuple(obj.path) if obj.path else None)

    def failed(self, task, exc):
        if self.failure is None:
            self.failure = exc

    def start(self, coro):
        t = Task(coro, self)
        self.ready.append(t)
        return t

    def run(self, main_coro):
        global _current
        _current = self
        try:
            self.main = self.start(main_coro)
            self._loop()
        finally:
            _current = None
        if self.failure is not None:
            raise self.failure
        return self.main.result

    def _loop(self):
        sim = self.sim
        n_ev = 0
        while True:
            # run every coroutine that is ready (FIFO; newly woken ones too)
            while self.ready:
                t = self.ready.pop(0)
                t.step()
                if self.failure is not None:
                    return
            if self.main.done:
                return
            if sim.pending:
                deltas = 0
                while sim.step_delta():
                    deltas += 1
                    if deltas > sim.MAX_DELTAS:
                        raise I.SimError("delta cycle limit exceeded (combinational loop?)")
                    if self.edge_waiters:
                        still = []
                        fired = []
                        for trig, task in self.edge_waiters:
                            (fired if trig.fired(sim) else still).append((trig, task))
                        self.edge_waiters = still
                        for trig, task in fired:
                            self.ready.append(task)
                        if fired:
                            break
                if self.ready:
                    continue
                if sim.pending:
                    continue
            # quiescent at this time: ReadOnly phase
            if self.readonly_waiters:
                ws, self.readonly_waiters = self.readonly_waiters, []
                self.writes_allowed = False
                try:
                    for task, trig in ws:
                        task.step()
                        if self.failure is not None:
                            return
                finally:
                    self.writes_allowed = True
                continue
            if not self.heap:
                if self.next_time_waiters:
                    raise RuntimeError("NextTimeStep with no future event")
                raise RuntimeError("simulation starved: test coroutine waits for an event that cannot happen")
            time = self.heap[0][0]
            if self.max_time is not None and time > self.max_time:
                raise SimTimeoutError(f"simulated time limit {self.max_time} exceeded")
            self.now = time
            if self.next_time_waiters:
                ws, self.next_time_waiters = self.next_time_waiters, []
                for task, trig in ws:
                    self.ready.append(task)
            while self.heap and self.heap[0][0] == time:
                _, _, fn = heapq.heappop(self.heap)
                fn()
                n_ev += 1
            if n_ev > self.max_events:
                raise SimTimeoutError("event limit exceeded")


def start_soon(coro):
    if _current is None:
        raise RuntimeError("cocotb.start_soon outside a running test")
    return _current.start(coro)


fork = start_soon
start = start_soon
