"""Stand-in for cocotbext.axi's AxiLiteBus / AxiLiteMaster used by the upstream AXI testbenches.

Behaviour follows cocotbext-axi: AW and W are presented together right after a rising clock edge and
held until their ready is sampled high at a rising edge; bready/rready are held high; values are
sampled at rising edges (pre-edge values)."""
from __future__ import annotations

from vf.tb.shim_runtime import RisingEdge


class AxiLiteBus:
    def __init__(self, dut, prefix):
        self.dut = dut
        self.prefix = prefix

    @classmethod
    def from_prefix(cls, dut, prefix):
        return cls(dut, prefix)

    def sig(self, name):
        return getattr(self.dut, f"{self.prefix}_{name}")

    def has(self, name):
        try:
            self.sig(name)
            return True
        except AttributeError:
            return False


class _Resp:
    def __init__(self, data=None, resp=0):
        self.data = data
        self.resp = resp


class AxiLiteMaster:
    def __init__(self, bus, clock, reset=None, reset_active_level=True):
        self.bus = bus
        self.clock = clock
        self.reset = reset
        self.reset_level = 1 if reset_active_level else 0
        import types

        self.write_if = types.SimpleNamespace(strb_mask=(1 << (len(bus.sig("wdata")) // 8)) - 1)
        b = bus
        b.sig("awvalid").value = 0
        b.sig("wvalid").value = 0
        b.sig("arvalid").value = 0
        b.sig("bready").value = 1
        b.sig("rready").value = 1
        for n, v in (("awaddr", 0), ("wdata", 0), ("wstrb", 0), ("araddr", 0), ("awprot", 0), ("arprot", 0)):
            if b.has(n):
                b.sig(n).value = v

    def _in_reset(self):
        if self.reset is None:
            return False
        v = self.reset.value
        return v.is_resolvable and v.integer == self.reset_level

    async def _edge(self):
        while True:
            await RisingEdge(self.clock)
            if not self._in_reset():
                return

    async def _write_word(self, address, val, strb, prot):
        b = self.bus
        await self._edge()
        b.sig("awaddr").value = address
        if b.has("awprot"):
            b.sig("awprot").value = prot
        b.sig("awvalid").value = 1
        b.sig("wdata").value = val
        b.sig("wstrb").value = strb
        b.sig("wvalid").value = 1
        aw_done = w_done = False
        while not (aw_done and w_done):
            await self._edge()
            if not aw_done and b.sig("awready").value == 1:
                aw_done = True
                b.sig("awvalid").value = 0
            if not w_done and b.sig("wready").value == 1:
                w_done = True
                b.sig("wvalid").value = 0
        while True:
            await self._edge()
            if b.sig("bvalid").value == 1:
                return int(b.sig("bresp").value)

    async def write(self, address, data, prot=2):
        """data: bytes; split into aligned bus words with byte strobes, like cocotbext-axi"""
        lanes = len(self.bus.sig("wdata")) // 8
        full = (1 << lanes) - 1
        mask = self.write_if.strb_mask & full
        data = bytes(data)
        word_addr = (address // lanes) * lanes
        start_offset = address % lanes
        end_offset = ((address + len(data) - 1) % lanes) + 1
        strb_start = (mask << start_offset) & mask
        strb_end = mask >> (lanes - end_offset)
        cycles = (len(data) + lanes - 1 + start_offset) // lanes
        off = 0
        resp = 0
        for k in range(cycles):
            start, stop, strb = 0, lanes, mask
            if k == 0:
                start = start_offset
                strb &= strb_start
            if k == cycles - 1:
                stop = end_offset
                strb &= strb_end
            val = 0
            for j in range(start, stop):
                val |= data[off] << (j * 8)
                off += 1
            r = await self._write_word(word_addr + k * lanes, val, strb, prot)
            resp = resp or r
        return _Resp(resp=resp)

    async def _read_word(self, address, prot):
        b = self.bus
        await self._edge()
        b.sig("araddr").value = address
        if b.has("arprot"):
            b.sig("arprot").value = prot
        b.sig("arvalid").value = 1
        while True:
            await self._edge()
            if b.sig("arready").value == 1:
                b.sig("arvalid").value = 0
                break
        while True:
            await self._edge()
            if b.sig("rvalid").value == 1:
                return int(b.sig("rdata").value), int(b.sig("rresp").value)

    async def read(self, address, length, prot=2):
        lanes = len(self.bus.sig("rdata")) // 8
        word_addr = (address // lanes) * lanes
        start_offset = address % lanes
        cycles = (length + lanes - 1 + start_offset) // lanes
        out = bytearray()
        resp = 0
        for k in range(cycles):
            v, r = await self._read_word(word_addr + k * lanes, prot)
            resp = resp or r
            out += v.to_bytes(lanes, "little")
        return _Resp(data=bytes(out[start_offset : start_offset + length]), resp=resp)

    async def write_byte(self, address, data):
        await self.write(address, bytes([data & 0xFF]))

    async def read_byte(self, address):
        return (await self.read(address, 1)).data[0]

    async def write_word(self, address, data, byteorder="little"):
        await self.write(address, int(data).to_bytes(2, byteorder))

    async def read_word(self, address, byteorder="little"):
        return int.from_bytes((await self.read(address, 2)).data, byteorder)

    async def write_dword(self, address, data, byteorder="little"):
        await self.write(address, int(data).to_bytes(4, byteorder))

    async def read_dword(self, address, byteorder="little"):
        r = await self.read(address, 4)
        return int.from_bytes(r.data, byteorder)

    async def write_dwords(self, address, data, byteorder="little"):
        for i, d in enumerate(data):
            await self.write_dword(address + 4 * i, d, byteorder)

    async def read_dwords(self, address, count, byteorder="little"):
        return [await self.read_dword(address + 4 * i, byteorder) for i in range(count)]
