"""Convenience layer for the std-library workloads (C14-C16, C20): compile a wrapper entity with the
real compiler, elaborate (legality checks on), and drive it clock by clock under the seeded seams of
tb.bench (process order per delta, input offsets)."""
from __future__ import annotations

from vf.core import rng
from vf.gen import render
from vf.tb import bench
from vf.vsim import elab, kernel
from vf.vsim.ieee import SimError
from vf.vsim.parse import Unsupported, VhdlError

_cache = {}


def compile_design(src, entity="E", cache_key=None, alias_persistent=False):
    """-> elaborated design (cached per worker by cache_key: compilation of std wrappers is the expensive part).
    alias_persistent: treat the compiler's alias variables of locally constructed signals as ordinary persistent VHDL
    variables (plain VHDL semantics) instead of activation-local intermediates; used where a design deliberately keeps
    such a value across states (maybe_uninitialized=True) -- the C08 side of that is probed in the C08 check itself"""
    if cache_key is not None and cache_key in _cache:
        return _cache[cache_key]
    text, lib = render.compile_source(src, entity, sidecar=True)
    tn = render.temp_classifier(lib)
    if alias_persistent and tn is not None:
        inner = tn

        def tn(entity_, label, name):  # noqa: F811
            if name.lower().startswith("alias"):
                return False
            return inner(entity_, label, name)
    design = elab.elaborate_text(text, temp_names=tn)
    design.vhdl_text = text
    if cache_key is not None:
        if len(_cache) > 64:
            _cache.clear()
        _cache[cache_key] = design
    return design


class Dut:
    def __init__(self, design, order_seed, tag="", active="rising", order_mode="uniform", offsets=True, clk="clk"):
        self.design = design
        self.b = bench.Bench(
            design,
            order_stream=rng.Stream(order_seed, "order", tag),
            offsets_stream=rng.Stream(order_seed, "offsets", tag) if offsets else None,
            active=active,
            order_mode=order_mode,
            clk=clk,
        )
        self.prev = None
        self.clock_no = 0

    @property
    def sim(self):
        return self.b.sim

    def start(self, inputs):
        self.b.start(inputs)
        self.prev = dict(inputs)
        # concurrent assertions fed through an intermediate boolean signal evaluate once with that signal's
        # initial value (false) during initialisation; those firings are not attributable to the run
        self.init_asserts = len(self.b.sim.asserts)

    def clock(self, inputs):
        """one period: inputs present at the active edge; returns after the active edge settled"""
        full = dict(self.prev)
        full.update(inputs)
        self.b.cycle_inputs(full, self.prev)
        self.prev = full
        self.b.edge()
        self.clock_no += 1

    def half(self):
        self.b.half()

    def get(self, n):
        return self.b.get(n)

    def raw(self, n):
        return self.b.raw(n)

    def problems(self):
        if len(self.b.sim.asserts) > getattr(self, "init_asserts", 0):
            return "assert", {"asserts": [str(a) for a in self.b.sim.asserts[self.init_asserts : self.init_asserts + 3]]}
        if self.b.sim.driver_conflicts:
            return "driver", {"conflicts": [str(a) for a in self.b.sim.driver_conflicts[:3]]}
        return None

    def stats(self):
        s = self.b.sim
        return {"deltas": s.delta_count, "activations": s.activations, "reorders": s.reorders, "clocks": self.b.cycles, **{"off_" + k: v for k, v in self.b.offset_counts.items()}}


def guarded(fn):
    """run fn() -> (status, detail); map simulator exceptions to violation classes"""
    try:
        return fn()
    except VhdlError as e:
        return "legality", {"rule": e.rule, "msg": str(e)[:400]}
    except kernel.ReadBeforeWrite as e:
        return "rbw", {"msg": str(e)[:300]}
    except SimError as e:
        return "simerror", {"msg": str(e)[:300]}


def add_stats(agg, st):
    for k, v in st.items():
        if isinstance(v, (int, float)):
            agg[k] = agg.get(k, 0) + v
