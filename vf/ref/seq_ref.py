"""Executable reference for sequential / concurrent context bodies (property C03), written from the statement:

 * within one activation of a sequential context statements take effect in program order; a signal assigned
   with <<= changes only after the activation (reads still see the old value, the last assignment executed
   wins -- per bit for slice / element targets --, an unassigned signal holds);
 * a variable assigned with @= changes immediately;
 * a pushed signal carries the pushed value for exactly one step and its default otherwise;
 * a concurrent context and any expression hoisted with cohdl.always continuously drive their targets with
   the current value of their operands;
 * if/elif/else, match and for ... break chains execute exactly the first branch whose condition holds, or the default.
"""
from __future__ import annotations

from vf.gen.seq import BIT_OUT, BIT_SIG, DEFAULTS, VEC_OUT, VEC_SIG

OUTS = tuple(VEC_OUT + BIT_OUT + ["pz", "mr"])


class SeqRef:
    def __init__(self, prog):
        self.prog = prog
        self.sig = dict(DEFAULTS)
        self.mem = [0, 0, 0, 0]
        self.vars = dict(prog["var_init"])
        self.inp = {"a": 0, "b": 0, "c": 0, "d": 0, "u": 0}
        self.branches = set()

    # ---------------- evaluation -------------------------------------------------------------
    def ev(self, e, T):
        k = e[0]
        if k == "k":
            return e[1] & 15
        if k == "in":
            return self.inp[e[1]]
        if k == "sig":
            return self.sig[e[1]]
        if k == "var":
            return self.vars[e[1]]
        if k == "t":
            v = T[e[1]]
            # `t = v0` binds another name to the same object (an alias), `t = v0 + 1` is a computed value
            return self.ev(v[1], T) if isinstance(v, tuple) else v
        if k == "cv":
            return 1 if self.cond(e[1], T) else 0
        if k == "add":
            return (self.ev(e[1], T) + self.ev(e[2], T)) & 15
        if k == "sub":
            return (self.ev(e[1], T) - self.ev(e[2], T)) & 15
        if k == "and":
            return self.ev(e[1], T) & self.ev(e[2], T)
        if k == "or":
            return self.ev(e[1], T) | self.ev(e[2], T)
        if k == "xor":
            return self.ev(e[1], T) ^ self.ev(e[2], T)
        if k == "ite":
            return self.ev(e[2], T) if self.cond(e[1], T) else self.ev(e[3], T)
        if k == "prio":
            x, y, vec = self.ev(e[2], T), self.ev(e[3], T), self.inp[e[1]]
            for i in range(3):
                if (vec >> i) & 1:
                    return x if (len(e) > 4 and e[4]) else (x + i) & 15
            return y
        if k == "pick":
            x, y = self.ev(e[2], T), self.ev(e[3], T)
            if self.cond(e[1], T):
                return x
            if x == y:
                return (y + 1) & 15
            return y
        if k in ("sl2", "raw2", "idx2"):
            src = T[e[1]] if (e[1] in T and isinstance(T[e[1]], int)) else self.vars[e[1]] if e[1] in self.vars else (self.inp[e[1]] if e[1] in self.inp else self.sig[e[1]])
            return (src >> e[2]) & 3
        if k == "bv":
            return self.bev(e[1], T)
        raise AssertionError(k)

    def bev(self, e, T):
        k = e[0]
        if k == "in":
            return self.inp[e[1]]
        if k == "sig":
            return self.sig[e[1]]
        if k == "var":
            return self.vars[e[1]]
        if k == "bnot":
            return 1 - self.bev(e[1], T)
        if k == "band":
            return self.bev(e[1], T) & self.bev(e[2], T)
        if k == "bor":
            return self.bev(e[1], T) | self.bev(e[2], T)
        if k == "bxor":
            return self.bev(e[1], T) ^ self.bev(e[2], T)
        if k == "bitof":
            return (self.inp[e[1]] >> e[2]) & 1
        if k == "rtbit":
            return (self.inp[e[1]] >> ((self.inp[e[2]] >> e[3]) & 3)) & 1
        raise AssertionError(k)

    def cond(self, c, T):
        k = c[0]
        if k == "b":
            return bool(self.bev(c[1], T))
        if k == "tb":
            return bool(T[c[1]])
        if k == "vb":
            return bool(self.vars[c[1]])
        if k == "not":
            return not self.cond(c[1], T)
        if k == "and":
            return self.cond(c[1], T) and self.cond(c[2], T)
        if k == "or":
            return self.cond(c[1], T) or self.cond(c[2], T)
        if k == "cite":
            return self.cond(c[2], T) if self.cond(c[1], T) else self.cond(c[3], T)
        if k == "cmpsel":
            x, y = self.ev(c[2], T), self.ev(c[3], T)
            return x == y if self.cond(c[1], T) else x < y
        a, b = self.ev(c[1], T), self.ev(c[2], T)
        return {"eq": a == b, "ne": a != b, "lt": a < b, "ge": a >= b}[k]

    # ---------------- execution ----------------------------------------------------------------
    def assign(self, t, val, pend, mpend, T):
        if t[0] == "sig":
            n = t[1]
            if n in VEC_OUT + VEC_SIG:
                pend[n] = {i: (val >> i) & 1 for i in range(4)}
            else:
                pend[n] = {0: val & 1}
        elif t[0] == "slice":
            d = pend.setdefault(t[1], {})
            for j, i in enumerate(range(t[3], t[2] + 1)):
                d[i] = (val >> j) & 1
        elif t[0] == "bit":
            pend.setdefault(t[1], {})[t[2]] = val & 1
        elif t[0] == "elem":
            mpend[self.ev(t[1], T)] = val
        else:
            raise AssertionError(t)

    def block(self, stmts, pend, mpend, T, push, path):
        for si, s in enumerate(stmts):
            k = s[0]
            if k == "asg":
                self.assign(s[1], self.ev(s[2], T), pend, mpend, T)
            elif k == "var":
                self.vars[s[1]] = self.ev(s[2], T)
            elif k == "push":
                push[0] = self.ev(s[1], T)
            elif k == "rdptr":
                val = self.mem[self.vars.get("vi", 0) & 3]
                self.vars["vi"] = (self.vars.get("vi", 0) + s[3]) & 3
                T[s[1]] = val
                self.assign(["sig", s[2]], val, pend, mpend, T)
            elif k == "let":
                T[s[1]] = ("alias", s[2]) if s[2][0] in ("var", "sig", "in", "t") else self.ev(s[2], T)
            elif k == "snap":
                T[s[1]] = self.vars[s[2]]
            elif k == "if":
                for j, (c, b) in enumerate(s[1]):
                    if self.cond(c, T):
                        self.branches.add(path + (si, j))
                        self.block(b, pend, mpend, T, push, path + (si, j))
                        break
                else:
                    self.branches.add(path + (si, "else"))
                    if s[2] is not None:
                        self.block(s[2], pend, mpend, T, push, path + (si, "e"))
            elif k == "match":
                v = self.ev(s[1], T)
                for j, (kk, b) in enumerate(s[2]):
                    if v == kk:
                        self.branches.add(path + (si, j))
                        self.block(b, pend, mpend, T, push, path + (si, j))
                        break
                else:
                    self.branches.add(path + (si, "default"))
                    if s[3] is not None:
                        self.block(s[3], pend, mpend, T, push, path + (si, "d"))
            elif k == "forbit":
                vec = self.inp[s[1]]
                for i in range(s[2]):
                    if (vec >> i) & 1:
                        self.branches.add(path + (si, i))
                        self.block(s[3][i], pend, mpend, T, push, path + (si, i))
                        break
                else:
                    self.branches.add(path + (si, "else"))
                    if s[4] is not None:
                        self.block(s[4], pend, mpend, T, push, path + (si, "e"))
            else:
                raise AssertionError(k)

    @staticmethod
    def merge(old, bits):
        v = old
        for i, b in bits.items():
            v = (v & ~(1 << i)) | (b << i)
        return v

    def comb(self):
        """concurrent contexts, unclocked sequential contexts and hoisted always-expressions: fix-point"""
        for _ in range(8):
            before = dict(self.sig)
            for ci, c in enumerate(self.prog["ctxs"]):
                if c["kind"] == "clocked":
                    for s in c["always"]:
                        pend = {}
                        self.assign(s[1], self.ev(s[2], {}), pend, {}, {})
                        for n, bits in pend.items():
                            self.sig[n] = self.merge(self.sig[n], bits)
                else:
                    pend, mpend, T, push = {}, {}, {}, [None]
                    self.block(c["body"], pend, mpend, T, push, (ci,))
                    for n, bits in pend.items():
                        self.sig[n] = self.merge(self.sig[n], bits)
            if self.sig == before:
                return
        raise AssertionError("reference did not settle (combinational loop in generated program)")

    def set_inputs(self, inp):
        self.inp = inp
        self.comb()

    def clock(self, inp):
        """inputs `inp` are present at the active edge; all clocked contexts execute against the old state"""
        self.inp = inp
        self.comb()
        commits = []
        for ci, c in enumerate(self.prog["ctxs"]):
            if c["kind"] != "clocked":
                continue
            if c.get("step") and not inp.get("en", 1):
                continue  # step condition false: nothing executes, every target (a pushed one included) holds
            pend, mpend, push = {}, {}, [None]
            T = {}
            for nm, e in c["always_vals"]:
                T[nm] = self.ev(e, {})
            self.block(c["body"], pend, mpend, T, push, (ci,))
            commits.append((c, pend, mpend, push))
        for c, pend, mpend, push in commits:
            for n, bits in pend.items():
                self.sig[n] = self.merge(self.sig[n], bits)
            for i, v in mpend.items():
                self.mem[i] = v
            if "pz" in c["owns"]:
                self.sig["pz"] = push[0] if push[0] is not None else DEFAULTS["pz"]
        self.comb()

    def outs(self):
        o = {n: self.sig[n] for n in VEC_OUT + BIT_OUT + ["pz"]}
        o["mr"] = self.mem[self.inp["u"] & 3]
        return o
