"""Executable reference for coroutine process bodies (property C01/C04): the program tree is run
directly as a Python generator in which ``yield`` is the clock boundary, following the wording of
the property statement:

 * statements run in program order; signals commit at the clock boundary, variables immediately;
 * ``await c`` ends the current clock and polls once per clock from the next one — immediately when
   it is the very first action of the process;
 * entering a ``while`` costs one clock (none when it is the very first action), every back-edge
   costs one clock, ``break``/``continue``/``return`` cost none (``continue`` re-checks the condition
   in the same clock);
 * a finished body restarts on the next clock.
"""
from __future__ import annotations

W = 4
MASK = (1 << W) - 1


class ModelDiverges(Exception):
    """the program loops without ever reaching a clock boundary (must have been rejected)"""


class CoroRef:
    DEFAULTS = {"marker": 0, "acc": 0, "q": 0, "r": 0, "nd": None, "nr": 3, "orr": 0, "ps": 5, "rx": 6, "nx": 9}
    NORESET = {"nr", "nx"}  # nx: member of a record created with std.NoresetSignal

    def __init__(self, prog):
        self.prog = prog
        rst = prog.get("reset") or {}
        self.OUTS = ("marker", "acc", "q", "r") + (("nd", "nr") if rst.get("extra_ports") else ()) + (("orr",) if rst.get("on_reset") else ()) + (("ps",) if prog.get("push") else ()) + (("rx", "nx") if rst.get("records") else ())
        self.on_reset = bool(rst.get("on_reset"))
        self.subs = {s["name"]: s["body"] for s in prog["subs"]}
        self.var_init = dict(prog["vars"])
        self.var_init["accv"] = 0
        self.power_up()

    def power_up(self):
        self.vars = dict(self.var_init)
        self.sig = {n: self.DEFAULTS[n] for n in self.OUTS}
        self.pend = {}
        self.inp = {}
        self.gen = self._main()
        self.trace = []
        self.steps_without_yield = 0
        self.fresh = True
        self.sites = []  # statement sites executed in the current clock (for reach statistics)

    def reset(self):
        """reset active at a clock: everything driven with a default takes it; coroutine restarts"""
        self.vars = dict(self.var_init)
        for n in self.OUTS:
            # objects without a default or marked noreset keep their value
            if self.DEFAULTS[n] is not None and n not in self.NORESET:
                self.sig[n] = self.DEFAULTS[n]
        if self.on_reset:
            self.sig["orr"] = 9
        self.pend = {}
        self.gen = self._main()
        self.fresh = True

    # one active clock edge with the context stepping
    def step(self, inputs):
        self.inp = inputs
        self.steps_without_yield = 0
        self.sites = []
        if "ps" in self.sig:
            # a pushed signal carries the pushed value for exactly one step, its default otherwise
            self.pend["ps"] = self.DEFAULTS["ps"]
        next(self.gen)
        self.sig.update(self.pend)
        self.pend = {}
        return dict(self.sig)

    # ---- evaluation -----------------------------------------------------------------------------
    def ev(self, e):
        k = e[0]
        if k == "k":
            return e[1] & MASK
        if k == "in":
            return self.inp[e[1]]
        if k == "v":
            return self.vars[e[1]]
        if k == "port":
            return self.sig[e[1]]
        if k == "addk":
            return (self.ev(e[1]) + e[2]) & MASK
        if k == "add":
            return (self.ev(e[1]) + self.ev(e[2])) & MASK
        raise AssertionError(k)

    def cond(self, c):
        k = c[0]
        if k == "in":
            return bool(self.inp[c[1]])
        if k == "not":
            return not self.cond(c[1])
        if k == "and":
            return self.cond(c[1]) and self.cond(c[2])
        if k == "or":
            return self.cond(c[1]) or self.cond(c[2])
        if k == "eqk":
            return self.ev(c[1]) == c[2]
        if k == "ltk":
            return self.ev(c[1]) < c[2]
        raise AssertionError(k)

    def _guard(self):
        self.steps_without_yield += 1
        if self.steps_without_yield > 2000:
            raise ModelDiverges()

    # ---- the coroutine ----------------------------------------------------------------------------
    def _main(self):
        while True:
            self.fresh = True
            yield from self.block(self.prog["body"])
            yield  # a finished coroutine restarts on the next clock

    def block(self, stmts):
        for s in stmts:
            self._guard()
            k = s[0]
            if k == "sig":
                self.pend[s[1]] = self.ev(s[2])
                self.fresh = False
            elif k == "comment":
                pass  # not an action: an await that follows only comments is still the very first action
            elif k == "sigs":
                _, t, hi, lo, e = s
                m = ((1 << (hi - lo + 1)) - 1)
                cur = self.pend.get(t, self.sig[t])
                self.pend[t] = (cur & ~(m << lo)) | ((self.ev(e) & m) << lo)
                self.fresh = False
            elif k == "var":
                self.vars[s[1]] = self.ev(s[2])
                self.fresh = False
            elif k == "push":
                self.pend["ps"] = self.ev(s[1])
                self.fresh = False
            elif k == "mark":
                self.pend["marker"] = s[1]
                self.vars["accv"] = (self.vars["accv"] + 1) & 0xFF
                self.pend["acc"] = self.vars["accv"]
                self.sites.append(s[1])
                self.fresh = False
            elif k == "await":
                if not self.fresh:
                    yield
                while not self.cond(s[1]):
                    yield
                self.fresh = False
            elif k == "tick":
                # `await true` as the very first action passes immediately and leaves the process
                # at its start (nothing has been executed yet)
                if not self.fresh:
                    yield
            elif k == "halt":
                while True:
                    yield
            elif k == "if":
                # evaluating the branch condition is itself an action of the process: an await
                # nested in a leading `if` is no longer "the very first action"
                self.fresh = False
                if self.cond(s[1]):
                    r = yield from self.block(s[2])
                elif s[3] is not None:
                    r = yield from self.block(s[3])
                else:
                    r = None
                if r is not None:
                    return r
            elif k == "match":
                # same as an if / elif chain on d == k: evaluating it is an action of the process
                self.fresh = False
                dv = self.inp["d"]
                r = None
                for kk, b in s[1]:
                    if dv == kk:
                        r = yield from self.block(b)
                        break
                else:
                    if s[2] is not None:
                        r = yield from self.block(s[2])
                if r is not None:
                    return r
            elif k == "while":
                if not self.fresh:
                    yield
                c = s[1]
                if c == "FALSE":
                    # an always-false loop is a one clock delay, i.e. `await true` (which at the
                    # very start of the process passes immediately and leaves it at its start)
                    continue
                self.fresh = False
                while True:
                    self._guard()
                    if c == "FALSE" or (c != "TRUE" and not self.cond(c)):
                        break
                    r = yield from self.block(s[2])
                    if r == "break":
                        break
                    if r == "return":
                        return r
                    if r == "continue":
                        continue
                    yield  # back-edge
            elif k == "break":
                return "break"
            elif k == "continue":
                return "continue"
            elif k == "return":
                return "return"
            elif k == "call":
                r = yield from self.block(self.subs[s[1]])
                # 'return' ends the sub-coroutine only
            else:
                raise AssertionError(k)
        return None
