import json, sys
d = json.load(open(sys.argv[1]))
p = d["payload"]
print(d["property"], d["vclass"], json.dumps(d["detail"])[:600])
src = p.get("source", "")
i = src.find("def architecture")
print(src[i:])
if len(sys.argv) > 2:
    v = p.get("vhdl", "")
    k = v.find("architecture")
    print(v[k:])
cl = (d["detail"] or {}).get("clock")
if cl is not None and "stim" in p:
    for j in range(max(0, cl - 5), cl + 1):
        print(j, p["stim"][j])
