"""C13 history executor (runs inside a fork of a pristine interpreter).

A history is a list of operations on the lazily built, cached class families of CoHDL:

  ["T", key]                      request a type                 key: see resolve()
  ["bad", key]                    a request that is expected to fail (the injected fault)
  ["obj", name, key, init]        create a qualified object  (key must be a Q / P key of a vector type)
  ["view", new, src, op, *args]   op: slice hi lo | index i | unsigned | signed | bitvector | iter k
  ["write", name, value]          write through a view (.next for signals/ports, .value for variables)

After EVERY operation the model is compared with the real classes/objects:
  * identity: equal canonical parameters -> the identical class object, different -> distinct
  * lattice : issubclass(A, B) == model for ALL pairs of classes created so far
  * objects : isinstance(o, C) == model for all objects x classes
  * views   : view._root is the root object, type(view) is the canonical qualified class for the expected
              wrapped type, and the value read through every view equals the model's bit array
"""
from __future__ import annotations

DIRS = {"in": "INPUT", "out": "OUTPUT", "inout": "INOUT"}


def canon(key):
    k = key[0]
    if k == "BVs":
        hi, lo = key[1], key[2]
        if lo == 0 and isinstance(hi, int) and hi >= 0:
            return ("BV", hi + 1)
        return ("BVs", hi, lo)
    if k == "Us":
        return ("U", key[1] + 1)
    if k == "Ss":
        return ("S", key[1] + 1)
    if k in ("BV", "U", "S"):
        return (k, key[1])
    if k in ("BVg", "Ug", "Sg", "Bit", "bool", "int"):
        return (k,)
    if k == "Arr":
        return ("Arr", canon(key[1]), key[2])
    if k == "Q":
        return ("Q", key[1], canon(key[2]))
    if k == "P":
        return ("P", canon(key[1]), key[2])
    if k == "Qg":
        return ("Qg", key[1])
    raise ValueError(key)


def resolve(key):
    import cohdl
    from cohdl import Array, Bit, BitVector, Port, Signal, Signed, Temporary, Unsigned, Variable

    k = key[0]
    if k == "BV":
        return BitVector[key[1]]
    if k == "BVs":
        return BitVector[key[1] : key[2]]
    if k == "BVstep":
        return BitVector[7:0:1]
    if k == "U":
        return Unsigned[key[1]]
    if k == "Us":
        return Unsigned[key[1] : 0]
    if k == "S":
        return Signed[key[1]]
    if k == "Ss":
        return Signed[key[1] : 0]
    if k == "BVg":
        return BitVector
    if k == "Ug":
        return Unsigned
    if k == "Sg":
        return Signed
    if k == "Bit":
        return Bit
    if k == "bool":
        return bool
    if k == "int":
        return int
    if k == "Arr":
        return Array[resolve(key[1]), key[2]]
    Q = {"Signal": Signal, "Variable": Variable, "Temporary": Temporary, "Port": Port}
    if k == "Q":
        return Q[key[1]][resolve(key[2])]
    if k == "Qdir":  # direction on a non-port: must fail
        return Q[key[1]][resolve(key[2]), getattr(Port.Direction, DIRS[key[3]])]
    if k == "P":
        return Port[resolve(key[1]), getattr(Port.Direction, DIRS[key[2]])]
    if k == "Pnodir":
        return Port[resolve(key[1])]
    if k == "Qg":
        return Q[key[1]]
    raise ValueError(key)


def flood_key(fam, w, n):
    if fam == "Arr":
        return ["Arr", ["U", w], n]
    if fam == "ArrBit":
        return ["Arr", ["Bit"], n]
    if fam in ("U", "S", "BV"):
        return [fam, n]
    if fam == "QU":
        return ["Q", "Signal", ["U", n]]
    if fam == "QArr":
        return ["Q", "Signal", ["Arr", ["BV", w], n]]
    return ["P", ["S", n], "in"]


def tsub(x, y):
    if x == y:
        return True
    if x[0] in ("U", "S"):
        return y in ((x[0] + "g",), ("BV", x[1]), ("BVg",))
    if x[0] in ("BV", "BVs"):
        return y == ("BVg",)
    if x[0] in ("Ug", "Sg"):
        return y == ("BVg",)
    return False


def msub(a, b):
    """model: is class with canonical key a a subclass of the class with key b"""
    if a == b:
        return True
    qa = a[0] in ("Q", "P")
    qb = b[0] in ("Q", "P")
    if b[0] == "Qg":
        if a[0] == "Q":
            return a[1] == b[1]
        if a[0] == "P":
            return b[1] in ("Port", "Signal")
        if a[0] == "Qg":
            return a[1] == "Port" and b[1] == "Signal"
        return False
    if a[0] == "Qg":
        return False
    if qa != qb:
        return False
    if not qa:
        return tsub(a, b)
    if a[0] == "Q" and b[0] == "Q":
        return a[1] == b[1] and tsub(a[2], b[2])
    if a[0] == "P" and b[0] == "P":
        return a[2] == b[2] and tsub(a[1], b[1])
    if a[0] == "P" and b[0] == "Q":
        return b[1] == "Signal" and tsub(a[1], b[2])
    return False


def wrapped_of(ck):
    return ck[2] if ck[0] == "Q" else ck[1]


def requalify(ck, t):
    return ("Q", ck[1], t) if ck[0] == "Q" else ("P", t, ck[2])


def key_of_canon(ck):
    """a request key that resolves to the class with canonical key ck"""
    k = ck[0]
    if k in ("BV", "U", "S"):
        return [k, ck[1]]
    if k in ("BVg", "Ug", "Sg", "Bit", "bool", "int"):
        return [k]
    if k == "Arr":
        return ["Arr", key_of_canon(ck[1]), ck[2]]
    if k == "Q":
        return ["Q", ck[1], key_of_canon(ck[2])]
    if k == "P":
        return ["P", key_of_canon(ck[1]), ck[2]]
    if k == "Qg":
        return ["Qg", ck[1]]
    raise ValueError(ck)


def refspec_range(o, root_width):
    """absolute (lo, hi) bit range of the root that the view's code-generation reference names, or None"""
    try:
        spec = o._ref_spec
        if len(spec) == 0:
            return (0, root_width - 1)
        if len(spec) != 1:
            return None
        e = spec[0]
        base = getattr(e, "base_offset", None)
        if base is None or not all(isinstance(b, int) for b in base):
            return None
        off = sum(base)
        tn = type(e).__name__
        if tn == "Slice" and isinstance(e.start, int) and isinstance(e.stop, int):
            return (e.stop + off, e.start + off)
        if tn == "Offset" and isinstance(e.offset, int):
            return (e.offset + off, e.offset + off)
        return None
    except Exception:
        return None


class Machine:
    def __init__(self):
        self.classes = {}  # canon -> class
        self.objs = {}  # name -> (obj, canon class key, root name, positions, kind)
        self.bits = {}  # root name -> list of bits LSB first
        self.viol = []
        self.stats = {"requests": 0, "failed_requests": 0, "unexpectedly_accepted": 0, "pairs_checked": 0, "view_checks": 0, "writes": 0, "created": 0}

    def v(self, i, kind, **det):
        if len(self.viol) < 5:
            d = {"op_index": i, "kind": kind}
            d.update(det)
            self.viol.append(d)

    def request(self, i, key):
        ck = canon(key)
        cls = resolve(key)
        self.stats["requests"] += 1
        old = self.classes.get(ck)
        if old is None:
            for ok, oc in self.classes.items():
                if oc is cls:
                    self.v(i, "distinct-parameters-same-class", a=str(ok), b=str(ck))
            self.classes[ck] = cls
            self.stats["created"] += 1
        elif old is not cls:
            self.v(i, "equal-parameters-different-class", key=str(ck))
        return ck, cls

    def check_lattice(self, i):
        items = list(self.classes.items())
        for ka, ca in items:
            for kb, cb in items:
                self.stats["pairs_checked"] += 1
                got = issubclass(ca, cb)
                if got != msub(ka, kb):
                    self.v(i, "issubclass-mismatch", a=str(ka), b=str(kb), got=got, expected=not got)
                    return
        for name, (o, ck, root, pos, kind) in self.objs.items():
            for kb, cb in items:
                got = isinstance(o, cb)
                if got != msub(ck, kb):
                    self.v(i, "isinstance-mismatch", obj=name, objtype=str(ck), b=str(kb), got=got, expected=not got)
                    return

    def read(self, o, kind):
        raw = type(o).decay(o)
        if kind == "Bit":
            return [1 if bool(raw) else 0]
        s = str(raw.bitvector) if kind in ("U", "S") else str(raw)
        return [int(c) for c in reversed(s)]

    def check_views(self, i):
        for name, (o, ck, root, pos, kind) in self.objs.items():
            self.stats["view_checks"] += 1
            ro = self.objs[root][0]
            if getattr(o, "_root", None) is not ro:
                self.v(i, "view-root-mismatch", view=name, root=root)
                return
            exp = self.classes.get(ck)
            if exp is None:
                ck2, exp = self.request(i, key_of_canon(ck))
            if type(o) is not exp:
                self.v(i, "view-type-not-canonical", view=name, got=str(type(o)), expected=str(ck))
                return
            try:
                got = self.read(o, kind)
            except Exception as e:
                self.v(i, "view-read-failed", view=name, error=repr(e)[:200])
                return
            want = [self.bits[root][p] for p in pos]
            if got != want:
                self.v(i, "view-value-mismatch", view=name, root=root, got=got, expected=want)
                return
            # the reference a view carries for code generation (root + constant bit range) must name the
            # same storage as the Python-level alias; unknown representations are skipped, not flagged
            rng_ = refspec_range(o, len(self.bits[root]))
            if rng_ is None:
                self.stats["refspec_unknown"] = self.stats.get("refspec_unknown", 0) + 1
            else:
                self.stats["refspec_checked"] = self.stats.get("refspec_checked", 0) + 1
                if list(range(rng_[0], rng_[1] + 1)) != list(pos):
                    self.v(i, "view-reference-names-other-storage", view=name, root=root, refers_to=list(rng_), expected=[pos[0], pos[-1]])
                    return

    def op(self, i, op):
        from cohdl import Bit, BitVector, Signed, Unsigned

        k = op[0]
        if k == "T":
            self.request(i, op[1])
        elif k == "flood":
            # MANY distinct parametrisations of one family between two uses of the same parameters (the class caches must
            # not forget: equal parameters give the identical class however many other classes were created in between)
            fam, w, count = op[1], op[2], op[3]
            first = {}
            probes = sorted({1, 2, count // 2, count - 1, count})
            for n in range(1, count + 1):
                key = flood_key(fam, w, n)
                cls = resolve(key)
                self.stats["requests"] += 1
                if n in probes:
                    first[n] = cls
                    # the probes take part in the lattice / identity bookkeeping like every other requested class
                    self.request(i, key)
            self.stats["flooded"] = self.stats.get("flooded", 0) + count
            for n in probes:
                again = resolve(flood_key(fam, w, n))
                if again is not first[n]:
                    self.v(i, "equal-parameters-different-class", key=str(canon(flood_key(fam, w, n))), after_other_parametrisations=count)
                    return
            # ... and the classes requested before the flood are still the ones handed out now
            for ck, cls in list(self.classes.items()):
                try:
                    again = resolve(key_of_canon(ck))
                except Exception:
                    continue
                if again is not cls:
                    self.v(i, "equal-parameters-different-class", key=str(ck), after_other_parametrisations=count)
                    return
        elif k == "bad":
            try:
                resolve(op[1])
            except Exception:
                self.stats["failed_requests"] += 1
            else:
                self.stats["unexpectedly_accepted"] += 1
        elif k == "obj":
            name, key, init = op[1], op[2], op[3]
            ck, cls = self.request(i, key)
            w = wrapped_of(ck)
            n = w[1]
            kw = {"name": name} if ck[0] == "P" else {}
            bits = [(init >> b) & 1 for b in range(n)]
            if w[0] == "BV":
                val = "".join(str(b) for b in reversed(bits))
            elif w[0] == "U":
                val = init & ((1 << n) - 1)
            else:
                val = (init & ((1 << n) - 1)) - ((1 << n) if bits[n - 1] else 0)
            o = cls(val, **kw)
            self.objs[name] = (o, ck, name, list(range(n)), w[0])
            self.bits[name] = bits
        elif k == "view":
            new, src, vop = op[1], op[2], op[3]
            o, ck, root, pos, kind = self.objs[src]
            if vop == "slice":
                hi, lo = op[4], op[5]
                no = o[hi:lo]
                npos = pos[lo : hi + 1]
                nk = "BV"
                nt = ("BV", hi - lo + 1)
            elif vop == "index":
                no = o[op[4]]
                npos = [pos[op[4]]]
                nk = "Bit"
                nt = ("Bit",)
            elif vop in ("unsigned", "signed", "bitvector"):
                no = getattr(o, vop)
                npos = list(pos)
                nk = {"unsigned": "U", "signed": "S", "bitvector": "BV"}[vop]
                nt = (nk, len(pos))
            elif vop == "iter":
                no = list(o)[op[4]]
                npos = [pos[op[4]]]
                nk = "Bit"
                nt = ("Bit",)
            else:
                raise ValueError(vop)
            self.objs[new] = (no, requalify(ck, nt), root, npos, nk)
            if len(self.objs) % 2 == 0:
                # what the VHDL back end does when it formats a reference to this view: fold the constant offsets of
                # its reference (RefSpec.simplify()).  Formatting one view must not change what any OTHER view names
                # (all views are re-checked after every operation)
                try:
                    for e_ in list(getattr(no, "_ref_spec", []) or []):
                        e_.simplify()
                    self.stats["views_formatted_like_the_backend"] = self.stats.get("views_formatted_like_the_backend", 0) + 1
                except Exception:
                    self.stats["backend_format_failed"] = self.stats.get("backend_format_failed", 0) + 1
        elif k == "write":
            o, ck, root, pos, kind = self.objs[op[1]]
            n = len(pos)
            v = op[2] & ((1 << n) - 1)
            bits = [(v >> b) & 1 for b in range(n)]
            if kind == "Bit":
                val = Bit(bool(v & 1))
            elif kind == "U":
                val = Unsigned[n](v)
            elif kind == "S":
                val = Signed[n](v - ((1 << n) if bits[n - 1] else 0))
            else:
                val = BitVector[n]("".join(str(b) for b in reversed(bits)))
            if ck[0] == "Q" and ck[1] == "Variable":
                o.value = val
            else:
                o.next = val
            for p, b in zip(pos, bits):
                self.bits[root][p] = b
            self.stats["writes"] += 1
        else:
            raise ValueError(k)


def run_type_history(arg):
    m = Machine()
    ops = arg["ops"]
    for i, op in enumerate(ops):
        try:
            m.op(i, op)
        except Exception as e:
            import traceback

            m.v(i, "operation-raised", op=str(op)[:200], error=repr(e)[:300], tb=traceback.format_exc()[-600:])
        if m.viol:
            break
        m.check_lattice(i)
        m.check_views(i)
        if m.viol:
            break
    return {"violations": m.viol, "stats": m.stats, "classes": len(m.classes), "objects": len(m.objs)}
