"""Pristine-interpreter fork server.

One server process = one Python interpreter started with a chosen PYTHONHASHSEED that has imported
cohdl (and, unless flavour 'core', cohdl.std) and nothing else of the design world.  Every request is
executed in a fork() of that interpreter, so every history starts from the same known state and the
hash seed is a controlled input.  Protocol: one JSON object per line on stdin, one per line on the
private result fd (the original stdout; fd 1 is redirected to /dev/null so compiler chatter cannot
corrupt the channel).

request  = {"fn": "module:function", "arg": <json>, "timeout": seconds}
response = {"ok": <json result>} | {"error": "<traceback>"}
"""
from __future__ import annotations

import importlib
import json
import os
import signal
import sys
import traceback


def _child(req, wfd):
    try:
        signal.alarm(int(req.get("timeout", 60)))
        modname, fn = req["fn"].split(":")
        mod = importlib.import_module(modname)
        res = {"ok": getattr(mod, fn)(req.get("arg"))}
    except BaseException:
        res = {"error": traceback.format_exc()[-4000:]}
    data = json.dumps(res, default=str).encode()
    off = 0
    while off < len(data):
        off += os.write(wfd, data[off:])
    os._exit(0)


def main():
    flavour = sys.argv[1] if len(sys.argv) > 1 else "std"
    out = os.fdopen(os.dup(1), "w")
    devnull = os.open(os.devnull, os.O_WRONLY)
    os.dup2(devnull, 1)
    os.dup2(devnull, 2)
    sys.stdout = open(os.devnull, "w")
    sys.stderr = sys.stdout
    import cohdl  # noqa: F401

    if flavour != "core":
        from cohdl import std  # noqa: F401
    # my own helper modules (no cohdl objects are created by importing them)
    import vf.session.history  # noqa: F401
    import vf.session.typehist  # noqa: F401

    out.write(json.dumps({"ready": True, "hashseed": os.environ.get("PYTHONHASHSEED"), "flavour": flavour}) + "\n")
    out.flush()
    for line in sys.stdin:
        line = line.strip()
        if not line:
            continue
        req = json.loads(line)
        if req.get("quit"):
            break
        r, w = os.pipe()
        pid = os.fork()
        if pid == 0:
            os.close(r)
            _child(req, w)
        os.close(w)
        chunks = []
        while True:
            b = os.read(r, 1 << 16)
            if not b:
                break
            chunks.append(b)
        os.close(r)
        _, st = os.waitpid(pid, 0)
        data = b"".join(chunks).decode()
        if not data:
            data = json.dumps({"error": f"child died with status {st}"})
        out.write(data + "\n")
        out.flush()


if __name__ == "__main__":
    main()
