"""Client side of the pristine fork servers: one server per (PYTHONHASHSEED, flavour) per worker
process, started lazily; servers die with their owner (stdin EOF)."""
from __future__ import annotations

import json
import os
import subprocess
import sys

VERIF = os.path.dirname(os.path.dirname(os.path.dirname(os.path.abspath(__file__))))

_servers = {}
_owner_pid = [None]


class ServerError(Exception):
    pass


class Server:
    def __init__(self, hashseed, flavour="std"):
        env = dict(os.environ)
        env["PYTHONHASHSEED"] = str(hashseed)
        env["PYTHONDONTWRITEBYTECODE"] = "1"
        self.hashseed = hashseed
        self.flavour = flavour
        self.p = subprocess.Popen(
            [sys.executable, "-m", "vf.session.server", flavour],
            cwd=VERIF,
            env=env,
            stdin=subprocess.PIPE,
            stdout=subprocess.PIPE,
            stderr=subprocess.DEVNULL,
            text=True,
            bufsize=1,
        )
        hello = self.p.stdout.readline()
        if not hello:
            raise ServerError(f"server hashseed={hashseed} did not start")
        h = json.loads(hello)
        if str(h.get("hashseed")) != str(hashseed):
            raise ServerError(f"server reports hashseed {h.get('hashseed')} instead of {hashseed}")
        self.requests = 0

    def call(self, fn, arg, timeout=60):
        self.p.stdin.write(json.dumps({"fn": fn, "arg": arg, "timeout": timeout}) + "\n")
        self.p.stdin.flush()
        line = self.p.stdout.readline()
        if not line:
            raise ServerError(f"server hashseed={self.hashseed} died")
        self.requests += 1
        res = json.loads(line)
        if "error" in res:
            raise ServerError(res["error"])
        return res["ok"]

    def close(self):
        try:
            self.p.stdin.close()
            self.p.wait(timeout=5)
        except Exception:
            self.p.kill()


def get(hashseed, flavour="std"):
    pid = os.getpid()
    if _owner_pid[0] != pid:  # forked worker: do not reuse the parent's pipes
        _servers.clear()
        _owner_pid[0] = pid
    k = (hashseed, flavour)
    s = _servers.get(k)
    if s is None or s.p.poll() is not None:
        s = Server(hashseed, flavour)
        _servers[k] = s
    return s


def close_all():
    for s in _servers.values():
        s.close()
    _servers.clear()
