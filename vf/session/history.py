"""History executors run inside a fork of a pristine interpreter (see server.py).

compile history: a list of operations on ONE interpreter
   ["compile", source, {"reserved": [names]}?]   define the module from `source` and compile its entity E
                         (optionally with additional_reserved_names)
   ["gc"]                gc.collect()
   ["define_keep", k, source] / ["setflag", k, bool] / ["compile_mod", k]   define once, toggle its module-level FLAGS["bad"],
                         compile the SAME class object (again)
   ["define", source]    only define the module (class creation runs CoHDL code as well)
outcome per compile: {"st": "ok", "sha": ..., "text": ...} | {"st": "rejected", "exc": type, "msg": ..., "site": [file, fn]}
After every operation the process-global compiler state named in the property anchors is probed
(read-only) and reported, so that the evidence can say which globals were dirty when a rejection unwound.
"""
from __future__ import annotations

import gc
import hashlib


def probe_globals():
    """read-only look at the process-global state of the compiler; True = not pristine"""
    out = {}
    try:
        from cohdl._core._ir._repr import StatemachineContext
    except Exception:
        StatemachineContext = None
    if StatemachineContext is not None:
        out["StatemachineContext._singleton"] = getattr(StatemachineContext, "_singleton", None) is not None
    try:
        from cohdl._core import _context as cc

        out["_block_stack"] = len(cc._block_stack) != 0
    except Exception:
        pass
    try:
        from cohdl.std import _prefix as sp

        out["_Prefix._prefix_scope"] = len(sp._Prefix._prefix_scope) != 0
        out["_Prefix._existing_prefix"] = len(sp._Prefix._existing_prefix) != 0
    except Exception:
        pass
    try:
        from cohdl.std import _context as sc

        out["std._current_context"] = sc._current_context is not None
    except Exception:
        pass
    try:
        import cohdl._compiler.frontend._generate_ir as g

        out["IrGenerator._break_result"] = len(g.IrGenerator._break_result) != 0
        out["IrGenerator._continue_result"] = len(g.IrGenerator._continue_result) != 0
        out["IrGenerator.returned_blocks"] = len(g.IrGenerator.returned_blocks) != 0
    except Exception:
        pass
    try:
        import cohdl._compiler.frontend._prepare_ast as pa

        out["_parent_frame"] = pa._parent_frame is not None
        out["_inline_declared_entities"] = len(pa._inline_declared_entities) != 0
        out["_active_converter_instance"] = pa._active_converter_instance is not None
        rs = pa._return_stack
        st = getattr(rs, "_stack", None)
        if st is not None:
            out["_return_stack"] = len(st) != 0
    except Exception:
        pass
    return out


def _kind(msg):
    """rejection kind: the message with quoted names, numbers and object reprs removed"""
    import re

    m = re.sub(r"'[^']*'|\"[^\"]*\"|<[^>]*>|\[[^\]]*\]|\d+", "_", msg)
    return m[:60]


def compile_one(src, keep_text=True, opts=None):
    from vf.gen import render

    try:
        text = render.compile_source(src, "E", reserved=(opts or {}).get("reserved"), fname=(opts or {}).get("fname"))
    except render.Rejected as e:
        return {"st": "rejected", "exc": e.exc_type, "msg": e.message[:300], "site": [e.exc_type, _kind(e.message)]}
    o = {"st": "ok", "sha": hashlib.sha256(text.encode()).hexdigest()}
    if keep_text:
        o["text"] = text
    return o


_MODS = {}


def run_compile_history(arg):
    ops = arg["ops"]
    keep = arg.get("keep_text", False)
    probe = arg.get("probe", True)
    out = []
    for op in ops:
        if op[0] == "compile":
            o = compile_one(op[1], keep, op[2] if len(op) > 2 else None)
        elif op[0] == "define_keep":
            # define a module and keep it: the SAME class objects are compiled again later
            from vf.gen import render

            _MODS[op[1]] = render.load_module(op[2])
            o = {"st": "defined"}
        elif op[0] == "setflag":
            _MODS[op[1]].FLAGS["bad"] = bool(op[2])
            o = {"st": "flag"}
        elif op[0] == "compile_mod":
            from vf.gen import render

            try:
                text = render.compile_entity(_MODS[op[1]].E)
                o = {"st": "ok", "sha": hashlib.sha256(text.encode()).hexdigest()}
                if keep:
                    o["text"] = text
            except render.Rejected as e:
                o = {"st": "rejected", "exc": e.exc_type, "msg": e.message[:300], "site": [e.exc_type, _kind(e.message)]}
        elif op[0] == "gc":
            gc.collect()
            o = {"st": "gc"}
        elif op[0] == "define":
            from vf.gen import render

            try:
                m = render.load_module(op[1])
                render.unload(m)
                o = {"st": "defined"}
            except BaseException as e:  # definition-time rejection
                o = {"st": "rejected", "exc": type(e).__name__, "msg": str(e)[:300], "site": None}
        else:
            raise ValueError(op[0])
        if probe:
            o["dirty"] = sorted(k for k, v in probe_globals().items() if v)
        out.append(o)
    return out
