"""Elaboration of parsed VHDL: symbol tables, overload resolution / static typing with width
inference, legality checks (each names its rule), and code generation of every process into a
Python function that runs against the kernel.

Every VhdlError raised here denotes text that is *definitely illegal* VHDL (or violates one of the
self-consistency clauses of property C06); legal-but-unsupported constructs raise Unsupported.
"""
from __future__ import annotations

import re

from . import ieee as I
from .parse import VhdlError, Unsupported, parse

NOSTATIC = object()


class Ty:
    __slots__ = ("kind", "base", "left", "dir", "right", "length", "elem", "name", "lits", "uid")

    def __init__(self, kind, base=None, left=None, dir=None, right=None, elem=None, name=None, lits=None, uid=None):
        self.kind = kind  # 'sl' 'bool' 'int' 'enum' 'vec' 'arr'
        self.base = base  # vec: 'slv' 'uns' 'sig'
        self.left, self.dir, self.right = left, dir, right
        self.elem = elem
        self.name = name
        self.lits = lits
        self.uid = uid
        if left is None:
            self.length = None
        elif dir == "downto":
            self.length = max(0, left - right + 1)
        else:
            self.length = max(0, right - left + 1)

    @property
    def key(self):
        if self.kind == "vec":
            return self.base
        if self.kind in ("enum", "arr"):
            return (self.kind, self.uid)
        return self.kind

    def pos(self, idx):
        """position (0 = leftmost) of index idx, or None when out of range"""
        p = self.left - idx if self.dir == "downto" else idx - self.left
        if 0 <= p < self.length:
            return p
        return None

    def describe(self):
        if self.kind == "vec":
            n = {"slv": "std_logic_vector", "uns": "unsigned", "sig": "signed"}[self.base]
            if self.left is None:
                return n
            return f"{n}({self.left} {self.dir} {self.right})"
        if self.kind == "arr":
            return f"{self.name}[{self.left} {self.dir} {self.right}] of {self.elem.describe()}"
        if self.kind == "enum":
            return self.name
        return {"sl": "std_logic", "bool": "boolean", "int": "integer"}[self.kind]

    def same(self, other):
        """same type and same shape (lengths), ignoring index bounds"""
        if self.key != other.key:
            return False
        if self.kind == "vec":
            return self.length == other.length
        return True


T_SL = Ty("sl")
T_BOOL = Ty("bool")
T_INT = Ty("int")


def vec_ty(base, n):
    return Ty("vec", base=base, left=n - 1, dir="downto", right=0)


def default_value(ty):
    if ty.kind == "sl":
        return "U"
    if ty.kind == "bool":
        return False
    if ty.kind == "int":
        return -2147483648
    if ty.kind == "enum":
        return 0
    if ty.kind == "vec":
        return "U" * ty.length
    if ty.kind == "arr":
        return tuple(default_value(ty.elem) for _ in range(ty.length))
    raise AssertionError(ty.kind)


PREDEF_TYPES = {
    "std_logic": ("1164", T_SL),
    "std_ulogic": ("1164", T_SL),
    "std_logic_vector": ("1164", "slv"),
    "std_ulogic_vector": ("1164", "slv"),
    "unsigned": ("numeric", "uns"),
    "signed": ("numeric", "sig"),
    "boolean": ("std", T_BOOL),
    "integer": ("std", T_INT),
    "natural": ("std", T_INT),
    "positive": ("std", T_INT),
}
PREDEF_FUNCS = {
    "rising_edge": "1164",
    "falling_edge": "1164",
    "to_integer": "numeric",
    "to_unsigned": "numeric",
    "to_signed": "numeric",
    "resize": "numeric",
    "shift_left": "numeric",
    "shift_right": "numeric",
    "rotate_left": "numeric",
    "rotate_right": "numeric",
    "to_x01": "1164",
    "to_01": "numeric",
    "is_x": "1164",
    "std_match": "numeric",
}
PREDEF_OTHER = {"true": "std", "false": "std", "ieee": "lib", "work": "lib", "std": "lib", "note": "std", "warning": "std", "error": "std", "failure": "std"}
VEC_KINDS = ("slv", "uns", "sig")


class Obj:
    __slots__ = ("cls", "name", "ty", "mode", "sid", "path", "init", "is_temp", "pyname", "static", "region", "used_as_read", "line")

    def __init__(self, cls, name, ty, mode=None):
        self.cls = cls  # 'signal' 'port' 'variable' 'constant' 'param' 'loopvar'
        self.name = name
        self.ty = ty
        self.mode = mode
        self.sid = None
        self.path = ()  # static base path inside root signal (for port formals bound to slices)
        self.init = None
        self.is_temp = False
        self.pyname = None
        self.static = NOSTATIC
        self.line = 0


class TypeEntry:
    def __init__(self, ty):
        self.ty = ty


class FuncEntry:
    def __init__(self, name, params, ret, pyname):
        self.name, self.params, self.ret, self.pyname = name, params, ret, pyname


class EnumLits:
    def __init__(self):
        self.alts = []  # (Ty, index)


class Scope:
    def __init__(self, parent=None, what=""):
        self.parent = parent
        self.tab = {}
        self.what = what

    def declare(self, name, entry, line=0):
        low = name.lower()
        if isinstance(entry, EnumLits):
            raise AssertionError
        if low in self.tab:
            raise VhdlError("duplicate-declaration", f"'{name}' is declared more than once in {self.what}", line)
        self.tab[low] = entry

    def declare_enum_lit(self, name, ty, index, line=0):
        low = name.lower()
        cur = self.tab.get(low)
        if cur is None:
            cur = self.tab[low] = EnumLits()
        elif not isinstance(cur, EnumLits):
            raise VhdlError("duplicate-declaration", f"enumeration literal '{name}' is a homograph of an object declared in {self.what}", line)
        cur.alts.append((ty, index))

    def lookup(self, name):
        low = name.lower()
        s = self
        while s is not None:
            e = s.tab.get(low)
            if e is not None:
                return e
            s = s.parent
        return None


class X:
    """compiled expression"""

    __slots__ = ("ty", "code", "static", "reads")

    def __init__(self, ty, code, static=NOSTATIC):
        self.ty = ty
        self.code = code
        self.static = static


class SignalInfo:
    __slots__ = ("sid", "name", "ty", "init", "kind", "mode", "decl")

    def __init__(self, sid, name, ty, init, kind, mode=None):
        self.sid, self.name, self.ty, self.init, self.kind, self.mode = sid, name, ty, init, kind, mode


class ProcInfo:
    def __init__(self):
        self.pid = None
        self.label = None
        self.hier = ""
        self.kind = "process"  # process | cassign | selassign | cassert
        self.sens = set()  # root sids
        self.reads = set()  # root sids read anywhere
        self.reads_unguarded = set()
        self.writes = set()  # root sids assigned
        self.writes_unguarded = set()
        self.write_paths = {}  # sid -> list of static paths or None (dynamic/whole)
        self.edge_guarded = False
        self.edge_signals = set()
        self.persistent = []  # names of persistent (user) variables
        self.temps = []
        self.src = ""
        self.factory = None
        self.var_inits = []
        self.line = 0
        self.branches = 0
        self.state_reads = set()


class Design:
    def __init__(self):
        self.signals = []
        self.procs = []
        self.top_ports = {}  # name -> Obj
        self.top_name = None
        self.entities = {}  # lower name -> parsed entity
        self.entity_order = []
        self.archs = {}
        self.instances = []  # (hier, entity name)
        self.drivers = {}  # sid -> set(pid or 'inst:..')
        self.warnings = []
        self.interface = {}  # entity lower -> [(name, mode, type description)]
        self.enum_types = {}

    def sig(self, name):
        return self.top_ports[name.lower()]


def _is_static_int(x):
    return x.static is not NOSTATIC and isinstance(x.static, int) and not isinstance(x.static, bool)


class Elaborator:
    def __init__(self, units, temp_names=None, strict_out_read=True):
        self.units = units
        self.design = Design()
        self.temp_names = temp_names  # callable(entity, process_label, varname) -> bool | None
        self.uid = 0
        self.strict_out_read = strict_out_read
        self._collect_units()

    # ---- library level -----------------------------------------------------------------------
    def _collect_units(self):
        d = self.design
        ctx = {"libs": set(), "uses": set()}
        pending_ctx = {"libs": set(), "uses": set()}
        self.ctx_of = {}
        last_entity_ctx = {}
        for u in self.units:
            k = u[0]
            if k == "library":
                pending_ctx["libs"].update(n.lower() for n in u[1])
            elif k == "use":
                parts = [p.lower() for p in u[1]]
                if parts[0] not in pending_ctx["libs"] and parts[0] not in ("work", "std"):
                    raise VhdlError("undeclared", f"library '{u[1][0]}' used without a library clause")
                pending_ctx["uses"].add(".".join(parts))
            elif k == "entity":
                name = u[2].lower()
                if name in d.entities:
                    raise VhdlError("duplicate-declaration", f"entity '{u[2]}' is emitted more than once", u[1])
                d.entities[name] = u
                d.entity_order.append(u[2])
                self.ctx_of[("entity", name)] = pending_ctx
                last_entity_ctx[name] = pending_ctx
                pending_ctx = {"libs": set(), "uses": set()}
            elif k == "architecture":
                ent = u[3].lower()
                if ent not in d.entities:
                    raise VhdlError("undeclared", f"architecture '{u[2]}' of unknown entity '{u[3]}'", u[1])
                if ent in d.archs:
                    raise Unsupported("several architectures for one entity")
                d.archs[ent] = u
                c = last_entity_ctx[ent]
                self.ctx_of[("arch", ent)] = {"libs": c["libs"] | pending_ctx["libs"], "uses": c["uses"] | pending_ctx["uses"]}
                pending_ctx = {"libs": set(), "uses": set()}
        if not d.entity_order:
            raise VhdlError("syntax", "no entity in design file")

    def _root_scope(self, ctx):
        """predefined environment visible through the context clause"""
        sc = Scope(None, "predefined environment")
        have = {"std"}
        if "ieee.std_logic_1164.all" in ctx["uses"]:
            have.add("1164")
        if "ieee.numeric_std.all" in ctx["uses"]:
            have.add("numeric")
        for n, (pkg, t) in PREDEF_TYPES.items():
            if pkg in have:
                sc.tab[n] = TypeEntry(t)
        for n, pkg in PREDEF_FUNCS.items():
            if pkg in have:
                sc.tab[n] = ("predef-func", n)
        sc.tab["true"] = ("bool-lit", True)
        sc.tab["false"] = ("bool-lit", False)
        self._have = have
        return sc

    # ---- types -------------------------------------------------------------------------------
    def resolve_subtype(self, st, scope, allow_unconstrained=False):
        _, line, name, constraint = st
        e = scope.lookup(name)
        if e is None:
            raise VhdlError("undeclared", f"type '{name}' is not declared", line)
        if not isinstance(e, TypeEntry):
            if name.lower() in PREDEF_TYPES:
                raise VhdlError("hides-predefined", f"'{name}' is declared as an object and hides the predefined type the text relies on", line)
            raise VhdlError("type", f"'{name}' is not a type", line)
        t = e.ty
        if isinstance(t, str):  # unconstrained vector family
            if constraint is None:
                if allow_unconstrained:
                    return Ty("vec", base=t)
                raise VhdlError("type", f"unconstrained array type '{name}' needs an index constraint", line)
            l, d, r = self.static_range(constraint, scope)
            return Ty("vec", base=t, left=l, dir=d, right=r)
        if constraint is not None:
            raise VhdlError("type", f"type '{name}' cannot take an index constraint", line)
        return t

    def static_range(self, rng, scope):
        _, line, l, d, r = rng
        lx = self.expr(l, scope, T_INT)
        rx = self.expr(r, scope, T_INT)
        if not _is_static_int(lx) or not _is_static_int(rx):
            raise Unsupported(f"non-static range bound (line {line})")
        return lx.static, d, rx.static

    # ---- top level ----------------------------------------------------------------------------
    def elaborate(self, top=None):
        d = self.design
        top = top or d.entity_order[-1]
        d.top_name = top
        # definition-before-use order of entities in the text
        seen = set()
        for name in d.entity_order:
            arch = d.archs.get(name.lower())
            if arch is not None:
                for st in arch[5]:
                    if st[0] == "inst" and st[4].lower() not in seen and st[4].lower() in d.entities:
                        raise VhdlError("entity-order", f"entity '{st[4]}' is used by '{name}' before it is defined", st[1])
            seen.add(name.lower())
        self._inst_stack = []
        self.elab_entity(top.lower(), hier=top, bindings=None)
        # static driver map
        for p in d.procs:
            for sid in p.writes:
                d.drivers.setdefault(sid, set()).add(p.pid)
        return d

    def new_signal(self, name, ty, init, kind, mode=None):
        d = self.design
        s = SignalInfo(len(d.signals), name, ty, init, kind, mode)
        d.signals.append(s)
        return s

    def elab_entity(self, ent_low, hier, bindings):
        d = self.design
        if ent_low in self._inst_stack:
            raise VhdlError("recursion", f"entity '{ent_low}' instantiates itself")
        self._inst_stack.append(ent_low)
        ent = d.entities[ent_low]
        arch = d.archs.get(ent_low)
        if arch is None:
            raise Unsupported(f"entity '{ent[2]}' has no architecture (extern)")
        if ent[3]:
            raise Unsupported("generics")
        root = self._root_scope(self.ctx_of[("arch", ent_low)])
        sc = Scope(root, f"entity/architecture {ent[2]}")
        self.cur_entity = ent[2]
        iface = []
        for _, line, name, mode, st, default in ent[4]:
            ty = self.resolve_subtype(st, sc)
            if mode in ("buffer", "linkage"):
                raise Unsupported(f"port mode {mode}")
            o = Obj("port", name, ty, mode)
            o.line = line
            iface.append((name, mode, ty.describe()))
            dv = default_value(ty)
            if default is not None:
                dx = self.expr(default, sc, ty)
                self.check_assignable(ty, dx, line, "port default")
                if dx.static is NOSTATIC:
                    raise Unsupported("non-static port default")
                dv = dx.static
            if bindings is None:
                s = self.new_signal(f"{hier}.{name}", ty, dv, "port", mode)
                o.sid = s.sid
                d.top_ports[name.lower()] = o
            else:
                b = bindings.get(name.lower())
                if b is None:
                    if mode == "in" and default is None:
                        raise VhdlError("port-map", f"input port '{name}' of '{ent[2]}' is unconnected and has no default", line)
                    s = self.new_signal(f"{hier}.{name}", ty, dv, "open-port", mode)
                    o.sid = s.sid
                else:
                    o.sid, o.path = b
            sc.declare(name, o, line)
        d.interface.setdefault(ent_low, iface)
        d.instances.append((hier, ent[2]))
        self.declare_block(arch[4], sc, hier, arch_level=True)
        for st, grp in zip(arch[5], arch[6]):
            self.cur_entity = ent[2]
            self.cur_group = (hier, grp)
            self.concurrent(st, sc, hier)
        self._inst_stack.pop()

    def declare_block(self, decls, sc, hier, arch_level, proc=None):
        d = self.design
        for dc in decls:
            k = dc[0]
            line = dc[1]
            if k == "objdecl":
                _, _, cls, name, st, init = dc
                ty = self.resolve_subtype(st, sc)
                if cls == "signal":
                    if not arch_level:
                        raise VhdlError("declaration", "signal declared inside a process", line)
                    iv = default_value(ty)
                    if init is not None:
                        ix = self.expr(init, sc, ty)
                        self.check_assignable(ty, ix, line, f"initial value of {name}")
                        if ix.static is NOSTATIC:
                            raise Unsupported("non-static signal initial value")
                        iv = ix.static
                    s = self.new_signal(f"{hier}.{name}", ty, iv, "signal")
                    o = Obj("signal", name, ty)
                    o.sid = s.sid
                    o.line = line
                    sc.declare(name, o, line)
                elif cls == "variable":
                    if arch_level:
                        raise VhdlError("declaration", "variable declared in an architecture", line)
                    o = Obj("variable", name, ty)
                    o.pyname = "v_" + name.lower()
                    o.line = line
                    iv = default_value(ty)
                    if init is not None:
                        ix = self.expr(init, sc, ty)
                        self.check_assignable(ty, ix, line, f"initial value of {name}")
                        if ix.static is NOSTATIC:
                            raise Unsupported("non-static variable initial value")
                        iv = ix.static
                    o.init = iv
                    sc.declare(name, o, line)
                    if proc is not None:
                        proc.append(o)
                else:  # constant
                    if init is None:
                        raise VhdlError("declaration", f"constant '{name}' without value", line)
                    ix = self.expr(init, sc, ty)
                    self.check_assignable(ty, ix, line, f"value of constant {name}")
                    if ix.static is NOSTATIC:
                        raise Unsupported("non-static constant")
                    o = Obj("constant", name, ty)
                    o.static = ix.static
                    sc.declare(name, o, line)
            elif k == "enumtype":
                _, _, name, lits = dc
                self.uid += 1
                ty = Ty("enum", name=name, lits=[l.lower() for l in lits], uid=self.uid)
                if len(set(ty.lits)) != len(ty.lits):
                    raise VhdlError("duplicate-declaration", f"enumeration type '{name}' repeats a literal", line)
                sc.declare(name, TypeEntry(ty), line)
                for i, l in enumerate(lits):
                    sc.declare_enum_lit(l, ty, i, line)
                d.enum_types[f"{hier}.{name}"] = ty
            elif k == "arraytype":
                _, _, name, rng, elem = dc
                l, dr, r = self.static_range(rng, sc)
                et = self.resolve_subtype(elem, sc)
                self.uid += 1
                ty = Ty("arr", left=l, dir=dr, right=r, elem=et, name=name, uid=self.uid)
                sc.declare(name, TypeEntry(ty), line)
            elif k == "function":
                self.declare_function(dc, sc)
            elif k in ("attrdecl", "attrspec"):
                if k == "attrdecl":
                    sc.declare(dc[2], ("attribute", dc[3]), line)
                else:
                    if sc.lookup(dc[2]) is None:
                        raise VhdlError("undeclared", f"attribute '{dc[2]}' is not declared", line)
                    if sc.lookup(dc[3]) is None:
                        raise VhdlError("undeclared", f"attribute target '{dc[3]}' is not declared", line)
            elif k == "component":
                raise Unsupported("component declaration")
            else:
                raise Unsupported(f"declaration {k}")

    # ---- functions -----------------------------------------------------------------------------
    def declare_function(self, dc, sc):
        _, line, name, params, ret, decls, body = dc
        fsc = Scope(sc, f"function {name}")
        ptys = []
        pnames = []
        for _, pl, pn, mode, st, default in params:
            ty = self.resolve_subtype(st, sc, allow_unconstrained=True)
            if ty.kind == "vec" and ty.left is None:
                raise Unsupported("unconstrained function parameter")
            o = Obj("param", pn, ty)
            o.pyname = "v_" + pn.lower()
            fsc.declare(pn, o, pl)
            ptys.append(ty)
            pnames.append(o.pyname)
        rty = self.resolve_subtype(ret, sc, allow_unconstrained=True)
        if rty.kind == "vec" and rty.left is None:
            raise Unsupported("unconstrained function return")
        self.uid += 1
        pyname = f"f_{name.lower()}_{self.uid}"
        fe = FuncEntry(name, ptys, rty, pyname)
        sc.declare(name, fe, line)
        locs = []
        self.declare_block(decls, fsc, "", arch_level=False, proc=locs)
        cg = CodeGen(self, fsc, None, in_function=fe)
        lines = [f"def {pyname}({', '.join(pnames)}):"]
        for o in locs:
            lines.append(f"    {o.pyname} = {o.init!r}")
        cg.indent = 1
        cg.lines = lines
        cg.stmts(body)
        lines.append("    raise SimError('function %s ended without return')" % name)
        self.func_src = getattr(self, "func_src", {})
        self.func_src[pyname] = "\n".join(lines)
        fe.src = "\n".join(lines)

    # ---- concurrent statements -----------------------------------------------------------------
    def new_proc(self, kind, label, hier, line):
        p = ProcInfo()
        p.pid = len(self.design.procs)
        p.kind = kind
        p.label = label
        p.hier = hier
        p.line = line
        p.entity = self.cur_entity
        p.group = self.cur_group
        self.design.procs.append(p)
        return p

    def concurrent(self, st, sc, hier):
        k = st[0]
        line = st[1]
        label = st[2]
        if label is not None:
            sc.declare(label, ("label", k), line)
        if k == "process":
            _, _, _, sens, decls, body = st
            p = self.new_proc("process", label, hier, line)
            psc = Scope(sc, f"process {label or ''}")
            pvars = []
            self.declare_block(decls, psc, hier, arch_level=False, proc=pvars)
            for o in pvars:
                o.is_temp = self.is_temp(self.cur_entity, label, o.name)
            cg = CodeGen(self, psc, p)
            cg.indent = 2
            cg.stmts(body)
            if sens is None:
                raise VhdlError("sensitivity", f"process '{label}' has neither a sensitivity list nor a wait statement", line)
            if sens == "all":
                p.sens = set(p.reads)
            else:
                if not sens:
                    raise VhdlError("sensitivity", f"process '{label}' has an empty sensitivity list", line)
                for nm in sens:
                    if nm[0] != "name":
                        raise Unsupported("sensitivity list entry that is not a simple name")
                    o = sc.lookup(nm[2])
                    if o is None:
                        raise VhdlError("undeclared", f"'{nm[2]}' in sensitivity list is not declared", nm[1])
                    if not isinstance(o, Obj) or o.cls not in ("signal", "port"):
                        raise VhdlError("sensitivity", f"'{nm[2]}' in sensitivity list is not a signal", nm[1])
                    if o.cls == "port" and o.mode == "out" and self.strict_out_read:
                        raise VhdlError("read-out-port", f"output port '{nm[2]}' appears in a sensitivity list", nm[1])
                    p.sens.add(o.sid)
                if not p.edge_guarded:
                    need = set(p.reads)
                elif p.writes_unguarded:
                    need = set(p.reads_unguarded) | p.edge_signals
                else:
                    need = set(p.edge_signals)
                missing = set(need) - p.sens
                if missing:
                    names = sorted(self.design.signals[s].name for s in missing)
                    raise VhdlError("sensitivity", f"process '{label}' reads {names} outside a clock-edge guard but its sensitivity list omits them", line)
            self.finish_proc(p, cg, pvars)
        elif k in ("cassign", "condassign", "selassign", "cassert"):
            p = self.new_proc(k, label, hier, line)
            psc = Scope(sc, "concurrent statement")
            cg = CodeGen(self, psc, p)
            cg.indent = 2
            if k == "cassign":
                cg.stmt(("sassign", line, st[3], st[4]))
            elif k == "condassign":
                branches = []
                orelse = None
                for val, cond in st[4]:
                    if cond is None:
                        orelse = [("sassign", line, st[3], val)]
                    else:
                        branches.append((cond, [("sassign", line, st[3], val)]))
                cg.stmt(("if", line, branches, orelse))
            elif k == "selassign":
                _, _, _, sel, target, alts = st
                cg.stmt(("case", line, sel, [(ch, [("sassign", line, target, val)]) for val, ch in alts]))
            else:
                cg.stmt(st[3])
            p.sens = set(p.reads)
            if p.edge_guarded:
                raise Unsupported("clock edge in concurrent statement")
            self.finish_proc(p, cg, [])
        elif k == "inst":
            self.instantiate(st, sc, hier)
        else:
            raise Unsupported(f"concurrent statement {k}")

    def is_temp(self, entity, label, name):
        if self.temp_names is not None:
            r = self.temp_names(entity, label, name)
            if r is not None:
                return r
        return re.fullmatch(r"temp\d*", name.lower()) is not None

    def finish_proc(self, p, cg, pvars):
        persistent = [o for o in pvars if not o.is_temp]
        p.persistent = [o.name for o in persistent]
        p.temps = [o.name for o in pvars if o.is_temp]
        p.var_inits = [o.init for o in persistent]
        lines = ["def factory(V, T, K, L, I, SimError, F):"]
        for fn in F_names(cg.used_funcs):
            lines.append(f"    {fn} = F[{fn!r}]")
        lines.append("    E = K.E")
        lines.append("    def run():")
        for i, o in enumerate(persistent):
            lines.append(f"        {o.pyname} = L[{i}]")
        body = cg.lines or ["        pass"]
        lines.extend(body)
        for i, o in enumerate(persistent):
            lines.append(f"        L[{i}] = {o.pyname}")
        if not persistent and not body:
            lines.append("        pass")
        lines.append("    return run")
        p.src = "\n".join(lines)
        p.branches = cg.branch_count
        ns = {}
        try:
            exec(compile(p.src, f"<vsim:{p.hier}:{p.label or p.kind}@{p.line}>", "exec"), ns)
        except SyntaxError as e:  # pragma: no cover - codegen bug
            raise AssertionError(f"codegen produced invalid python: {e}\n{p.src}")
        p.factory = ns["factory"]

    def instantiate(self, st, sc, hier):
        _, line, label, lib, ent, arch, gmap, pmap = st
        d = self.design
        if lib.lower() != "work":
            raise Unsupported(f"instantiation from library {lib}")
        el = ent.lower()
        if el not in d.entities:
            raise Unsupported(f"entity '{ent}' not in the compiled text (extern)")
        if gmap:
            raise Unsupported("generic map")
        a = d.archs.get(el)
        if arch is not None and a is not None and a[2].lower() != arch.lower():
            raise VhdlError("undeclared", f"architecture '{arch}' of '{ent}' does not exist", line)
        formals = {p[2].lower(): p for p in d.entities[el][4]}
        # types of formals must be resolved in the callee's scope: resolve with a throw-away scope
        callee_root = self._root_scope(self.ctx_of[("arch", el)])
        bindings = {}
        inst_id = f"inst:{hier}.{label}"
        for _, al, formal, actual in pmap:
            if formal is None:
                raise Unsupported("positional port association")
            if formal[0] != "name":
                raise Unsupported("partial/converted formal in port map")
            fname = formal[2].lower()
            if fname not in formals:
                raise VhdlError("port-map", f"'{formal[2]}' is not a port of '{ent}'", al)
            if fname in bindings:
                raise VhdlError("port-map", f"port '{formal[2]}' is associated twice", al)
            fp = formals[fname]
            fty = self.resolve_subtype(fp[4], Scope(callee_root))
            fmode = fp[3]
            if actual is None:
                bindings[fname] = None
                continue
            ref = self.static_signal_ref(actual, sc)
            if ref is None:
                # expression actual: only static values for input ports
                if fmode != "in":
                    raise VhdlError("port-map", f"actual of {fmode} port '{formal[2]}' is not a signal", al)
                ax = self.expr(actual, sc, fty)
                self.check_assignable(fty, ax, al, f"port association {formal[2]}")
                if ax.static is NOSTATIC:
                    raise Unsupported("non-static expression as port actual")
                s = self.new_signal(f"{hier}.{label}.{formal[2]}$const", fty, ax.static, "const-actual")
                bindings[fname] = (s.sid, ())
                continue
            o, path, aty, dynamic = ref
            if dynamic:
                raise VhdlError("port-map", f"actual of port '{formal[2]}' is not a static name", al)
            if not aty.same(fty):
                raise VhdlError("width", f"port association {formal[2]} => ...: formal is {fty.describe()} but actual is {aty.describe()}", al)
            if o.cls == "port":
                if fmode == "in" and o.mode == "out" and self.strict_out_read:
                    raise VhdlError("read-out-port", f"output port '{o.name}' is read through port association '{formal[2]}'", al)
                if fmode in ("out", "inout") and o.mode == "in":
                    raise VhdlError("assign-to-input", f"input port '{o.name}' is driven by instance port '{formal[2]}'", al)
            bindings[fname] = (o.sid, o.path + path)
            if fmode in ("out", "inout"):
                d.drivers.setdefault(o.sid, set()).add(inst_id)
        missing_in = [n for n, p in formals.items() if n not in bindings]
        for n in missing_in:
            bindings[n] = None
        save = self.cur_entity
        self.elab_entity(el, f"{hier}.{label}", bindings)
        self.cur_entity = save

    def static_signal_ref(self, node, sc):
        """name / indexed / sliced name denoting (part of) a signal -> (Obj, path, Ty, dynamic)"""
        while node[0] == "paren":
            node = node[2]
        if node[0] == "name":
            o = sc.lookup(node[2])
            if isinstance(o, Obj) and o.cls in ("signal", "port"):
                return o, (), o.ty, False
            return None
        if node[0] == "apply":
            base = self.static_signal_ref(node[2], sc)
            if base is None:
                return None
            o, path, ty, dyn = base
            cg = CodeGen(self, sc, None)
            step, nty, sdyn = cg.path_step(ty, node[3], node[1])
            if sdyn:
                return o, path, nty, True
            return o, path + (step,), nty, dyn
        return None

    # ---- expressions (static typing) -----------------------------------------------------------
    def expr(self, node, sc, want=None):
        return CodeGen(self, sc, None).expr(node, want)

    def check_assignable(self, tty, x, line, what):
        if x.ty.key != tty.key:
            raise VhdlError("type", f"{what}: expected {tty.describe()}, found {x.ty.describe()}", line)
        if tty.kind == "vec" and x.ty.length is not None and tty.length != x.ty.length:
            raise VhdlError("width", f"{what}: target is {tty.length} wide, value is {x.ty.length} wide", line)
        if tty.kind == "arr" and tty.uid != x.ty.uid:
            raise VhdlError("type", f"{what}: array types differ", line)


def F_names(used):
    return sorted(used)


LOGICAL = ("and", "or", "xor", "nand", "nor", "xnor")
RELEQ = ("=", "/=")
RELORD = ("<", "<=", ">", ">=")


class CodeGen:
    """type checks statements/expressions in a scope and emits python source"""

    def __init__(self, el, scope, proc, in_function=None):
        self.el = el
        self.scope = scope
        self.proc = proc
        self.lines = []
        self.indent = 0
        self.guard_depth = 0
        self.in_function = in_function
        self.used_funcs = set()
        self.tmp = 0
        self.branch_count = 0
        self._cands = {}

    def emit(self, s):
        self.lines.append("    " * self.indent + s)

    # ---- candidates (overload resolution, bottom-up) -------------------------------------------
    def cands(self, node):
        k = id(node)
        r = self._cands.get(k)
        if r is None:
            r = self._cands[k] = self._cands_impl(node)
        return r

    def _cands_impl(self, n):
        k = n[0]
        if k == "int":
            return {"int"}
        if k == "chr":
            if n[2] not in I.STD:
                if n[2].upper() in I.STD:
                    raise VhdlError("type", f"character literal '{n[2]}' is not a std_logic value (case matters)", n[1])
                raise Unsupported(f"character literal '{n[2]}'")
            return {"sl"}
        if k == "str":
            return set(VEC_KINDS)
        if k == "paren":
            return self.cands(n[2])
        if k == "agg":
            s = set(VEC_KINDS)
            s.add("agg-arr")
            return s
        if k == "name":
            e = self.scope.lookup(n[2])
            if e is None:
                raise VhdlError("undeclared", f"'{n[2]}' is not declared", n[1])
            if isinstance(e, Obj):
                return {e.ty.key}
            if isinstance(e, EnumLits):
                return {t.key for t, _ in e.alts}
            if isinstance(e, tuple) and e[0] == "bool-lit":
                return {"bool"}
            if isinstance(e, FuncEntry) and not e.params:
                return {e.ret.key}
            raise VhdlError("type", f"'{n[2]}' cannot be used as a value", n[1])
        if k == "qual":
            ty = self.type_mark(n[2])
            return {ty.key if isinstance(ty, Ty) else ty}
        if k == "attr":
            if n[3] in ("length", "left", "right", "high", "low"):
                return {"int"}
            if n[3] in ("event",):
                return {"bool"}
            raise Unsupported(f"attribute '{n[3]}")
        if k == "unop":
            op = n[2]
            c = self.cands(n[3])
            if op == "not":
                return c & {"bool", "sl", "slv", "uns", "sig"}
            return c & {"int", "sig"}
        if k == "binop":
            op = n[2]
            cl, cr = self.cands(n[3]), self.cands(n[4])
            return {res for (_, _, res) in self.binop_rows(op, cl, cr)}
        if k == "apply":
            return self.apply_cands(n)
        raise Unsupported(f"expression node {k}")

    def binop_rows(self, op, cl, cr):
        rows = []
        if op in LOGICAL:
            for t in ("bool", "sl", "slv", "uns", "sig"):
                if t in cl and t in cr:
                    rows.append((t, t, t))
        elif op in RELEQ or op in RELORD:
            for t in cl & cr:
                if t == "agg-arr":
                    continue
                if op in RELORD and isinstance(t, tuple) and t[0] == "arr":
                    continue
                if op in RELORD and t == "bool":
                    pass
                rows.append((t, t, "bool"))
            for v in ("uns", "sig"):
                if v in cl and "int" in cr:
                    rows.append((v, "int", "bool"))
                if "int" in cl and v in cr:
                    rows.append(("int", v, "bool"))
        elif op in ("+", "-", "*", "/", "mod", "rem"):
            if "int" in cl and "int" in cr:
                rows.append(("int", "int", "int"))
            for v in ("uns", "sig"):
                if v in cl and v in cr:
                    rows.append((v, v, v))
                if v in cl and "int" in cr:
                    rows.append((v, "int", v))
                if "int" in cl and v in cr:
                    rows.append(("int", v, v))
        elif op == "&":
            for v in VEC_KINDS:
                if v in cl and v in cr:
                    rows.append((v, v, v))
                if v in cl and "sl" in cr:
                    rows.append((v, "sl", v))
                if "sl" in cl and v in cr:
                    rows.append(("sl", v, v))
                if "sl" in cl and "sl" in cr:
                    rows.append(("sl", "sl", v))
        elif op == "**":
            if "int" in cl and "int" in cr:
                rows.append(("int", "int", "int"))
        else:
            raise Unsupported(f"operator {op}")
        return rows

    def type_mark(self, node):
        if node[0] != "name":
            raise VhdlError("type", "type mark expected", node[1])
        e = self.scope.lookup(node[2])
        if e is None:
            raise VhdlError("undeclared", f"type '{node[2]}' is not declared", node[1])
        if not isinstance(e, TypeEntry):
            if node[2].lower() in PREDEF_TYPES:
                raise VhdlError("hides-predefined", f"'{node[2]}' is declared as an object and hides the predefined type the text relies on", node[1])
            raise VhdlError("type", f"'{node[2]}' is not a type", node[1])
        return e.ty

    def apply_cands(self, n):
        head = n[2]
        if head[0] == "name":
            e = self.scope.lookup(head[2])
            low = head[2].lower()
            if e is None:
                raise VhdlError("undeclared", f"'{head[2]}' is not declared", n[1])
            if isinstance(e, TypeEntry):
                t = e.ty
                return {t if isinstance(t, str) else t.key}
            if isinstance(e, FuncEntry):
                return {e.ret.key}
            if isinstance(e, tuple) and e[0] == "predef-func":
                f = e[1]
                if f in ("rising_edge", "falling_edge", "is_x", "std_match"):
                    return {"bool"}
                if f == "to_integer":
                    return {"int"}
                if f == "to_unsigned":
                    return {"uns"}
                if f == "to_signed":
                    return {"sig"}
                if f == "to_x01":
                    return self.cands(n[3][0]) & {"sl", "slv"}
                if f in ("resize", "shift_left", "shift_right", "rotate_left", "rotate_right", "to_01"):
                    if not n[3]:
                        raise VhdlError("type", f"{f} without arguments", n[1])
                    return self.cands(n[3][0]) & {"uns", "sig"}
            if isinstance(e, Obj):
                # index or slice
                ty = e.ty
                try:
                    return {self.index_result_type(ty, n[3], n[1]).key}
                except VhdlError as err:
                    if low in PREDEF_FUNCS or low in PREDEF_TYPES:
                        raise VhdlError("hides-predefined", f"'{head[2]}' is declared as an object and hides the predefined name the text relies on ({err.msg})", n[1])
                    raise
            raise VhdlError("type", f"'{head[2]}' cannot be applied", n[1])
        # nested: index of an indexed name / call result
        base = self.cands(head)
        res = set()
        for b in base:
            ty = self.expr_type_for_key(head, b)
            res.add(self.index_result_type(ty, n[3], n[1]).key)
        return res

    def expr_type_for_key(self, node, key):
        return self.expr(node, key, dry=True).ty

    def index_result_type(self, ty, args, line):
        if len(args) != 1:
            raise VhdlError("type", f"{ty.describe()} indexed with {len(args)} expressions", line)
        a = args[0]
        if ty.kind == "vec":
            if a[0] == "range":
                l, d, r = self.range_static(a)
                if l is None:
                    raise Unsupported("non-static slice bounds")
                return Ty("vec", base=ty.base, left=l, dir=d, right=r)
            return T_SL
        if ty.kind == "arr":
            if a[0] == "range":
                raise Unsupported("slice of array-of-array")
            return ty.elem
        raise VhdlError("type", f"object of type {ty.describe()} cannot be indexed", line)

    def range_static(self, rng):
        _, line, l, d, r = rng
        lx = self.expr(l, "int")
        rx = self.expr(r, "int")
        if not _is_static_int(lx) or not _is_static_int(rx):
            return None, d, None
        return lx.static, d, rx.static

    # ---- expression compilation ---------------------------------------------------------------
    def expr(self, node, want=None, dry=False):
        """want: None | kind key | Ty.  Returns X."""
        wkey = want.key if isinstance(want, Ty) else want
        c = self.cands(node)
        if wkey is not None:
            ok = wkey in c or ("agg-arr" in c and isinstance(wkey, tuple) and wkey[0] == "arr")
            if not ok:
                raise VhdlError("type", f"expression of type {self.fmt_keys(c)} where {self.fmt_key(wkey)} is required", node[1])
        else:
            cc = c - {"agg-arr"} if len(c) > 1 else c
            if len(c) != 1:
                if not c:
                    raise VhdlError("type", "no interpretation of expression is well-typed", node[1])
                raise VhdlError("type", f"expression type is ambiguous ({self.fmt_keys(c)})", node[1])
            wkey = next(iter(c))
        return self.expr_k(node, wkey, want if isinstance(want, Ty) else None)

    def fmt_key(self, k):
        names = {"sl": "std_logic", "bool": "boolean", "int": "integer", "slv": "std_logic_vector", "uns": "unsigned", "sig": "signed", "agg-arr": "array aggregate"}
        if isinstance(k, tuple):
            return f"{k[0]} type #{k[1]}"
        return names.get(k, str(k))

    def fmt_keys(self, ks):
        return "{" + ", ".join(sorted(self.fmt_key(k) for k in ks)) + "}"

    def read_obj(self, o, line):
        """code for reading a whole object; records the read"""
        if o.cls in ("signal", "port"):
            if o.cls == "port" and o.mode == "out" and self.el.strict_out_read:
                raise VhdlError("read-out-port", f"output port '{o.name}' is read", line)
            if self.in_function is not None:
                raise Unsupported("signal read inside a function")
            if self.proc is not None:
                self.proc.reads.add(o.sid)
                if self.guard_depth == 0:
                    self.proc.reads_unguarded.add(o.sid)
            code = f"V[{o.sid}]"
            for (p, n) in o.path:
                code += f"[{p}]" if n is None else f"[{p}:{p + n}]"
            return code
        if o.cls == "constant":
            return repr(o.static)
        return o.pyname

    def expr_k(self, n, key, wty):
        k = n[0]
        line = n[1]
        if k == "int":
            return X(T_INT, repr(n[2]), n[2])
        if k == "chr":
            return X(T_SL, repr(n[2]), n[2])
        if k == "str":
            for ch in n[2]:
                if ch not in I.STD:
                    raise VhdlError("type", f"string literal \"{n[2]}\" contains '{ch}', not a std_logic value", line)
            ln = len(n[2])
            ty = Ty("vec", base=key, left=0, dir="to", right=ln - 1)
            return X(ty, repr(n[2]), n[2])
        if k == "paren":
            x = self.expr_k(n[2], key, wty)
            return X(x.ty, f"({x.code})", x.static)
        if k == "name":
            e = self.scope.lookup(n[2])
            if isinstance(e, Obj):
                return X(e.ty, self.read_obj(e, line), e.static)
            if isinstance(e, EnumLits):
                for t, idx in e.alts:
                    if t.key == key:
                        return X(t, repr(idx), idx)
            if isinstance(e, tuple) and e[0] == "bool-lit":
                return X(T_BOOL, repr(e[1]), e[1])
            if isinstance(e, FuncEntry):
                self.used_funcs.add(e.pyname)
                return X(e.ret, f"{e.pyname}()")
            raise VhdlError("type", f"'{n[2]}' cannot be used as a value", line)
        if k == "qual":
            ty = self.type_mark(n[2])
            inner = n[3]
            if isinstance(ty, str):
                x = self.expr(inner, ty)
                return x
            x = self.expr(inner, ty)
            self.el.check_assignable(ty, x, line, "qualified expression")
            return x
        if k == "agg":
            return self.aggregate(n, key, wty)
        if k == "attr":
            return self.attribute(n)
        if k == "unop":
            return self.unop(n, key)
        if k == "binop":
            return self.binop(n, key)
        if k == "apply":
            return self.apply(n, key, wty)
        raise Unsupported(f"expression node {k}")

    def attribute(self, n):
        _, line, prefix, attr = n
        if prefix[0] != "name":
            raise Unsupported("attribute of a non-simple name")
        e = self.scope.lookup(prefix[2])
        if e is None:
            raise VhdlError("undeclared", f"'{prefix[2]}' is not declared", line)
        if attr == "event":
            if not isinstance(e, Obj) or e.cls not in ("signal", "port"):
                raise VhdlError("type", "'event of a non-signal", line)
            self.proc.reads.add(e.sid)
            if self.guard_depth == 0:
                self.proc.reads_unguarded.add(e.sid)
            return X(T_BOOL, f"({e.sid} in E)")
        ty = e.ty if isinstance(e, (Obj, TypeEntry)) else None
        if not isinstance(ty, Ty) or ty.left is None:
            raise Unsupported("attribute prefix")
        val = {"length": ty.length, "left": ty.left, "right": ty.right, "high": max(ty.left, ty.right), "low": min(ty.left, ty.right)}[attr]
        return X(T_INT, repr(val), val)

    def aggregate(self, n, key, wty):
        _, line, elems = n
        if wty is None or wty.left is None:
            # positional aggregate of an unconstrained vector kind
            if all(ch is None for ch, _ in elems) and key in VEC_KINDS:
                xs = [self.expr(v, "sl") for _, v in elems]
                ty = Ty("vec", base=key, left=0, dir="to", right=len(xs) - 1)
                st = "".join(x.static for x in xs) if all(x.static is not NOSTATIC for x in xs) else NOSTATIC
                return X(ty, "(" + " + ".join(x.code for x in xs) + ")", st)
            raise Unsupported("aggregate without a constrained target type")
        if wty.kind == "vec":
            ety = T_SL
        elif wty.kind == "arr":
            ety = wty.elem
        else:
            raise VhdlError("type", f"aggregate for non-composite type {wty.describe()}", line)
        slots = [None] * wty.length
        others = None
        pos_i = 0
        for ch, v in elems:
            x = self.expr(v, ety)
            self.el.check_assignable(ety, x, line, "aggregate element")
            if ch is None:
                if pos_i >= wty.length:
                    raise VhdlError("width", "aggregate has more elements than the target", line)
                slots[pos_i] = x
                pos_i += 1
                continue
            for c in ch:
                if c[0] == "others":
                    if others is not None:
                        raise VhdlError("duplicate-choice", "aggregate has two others choices", line)
                    others = x
                elif c[0] == "range":
                    l, d, r = self.range_static(c)
                    if l is None:
                        raise Unsupported("non-static aggregate range")
                    idxs = range(l, r - 1, -1) if d == "downto" else range(l, r + 1)
                    for i in idxs:
                        p = wty.pos(i)
                        if p is None:
                            raise VhdlError("width", f"aggregate choice {i} is outside {wty.describe()}", line)
                        if slots[p] is not None:
                            raise VhdlError("duplicate-choice", f"aggregate element {i} is given twice", line)
                        slots[p] = x
                else:
                    ix = self.expr(c, "int")
                    if not _is_static_int(ix):
                        raise Unsupported("non-static aggregate choice")
                    p = wty.pos(ix.static)
                    if p is None:
                        raise VhdlError("width", f"aggregate choice {ix.static} is outside {wty.describe()}", line)
                    if slots[p] is not None:
                        raise VhdlError("duplicate-choice", f"aggregate element {ix.static} is given twice", line)
                    slots[p] = x
        for i, s in enumerate(slots):
            if s is None:
                if others is None:
                    raise VhdlError("width", f"aggregate does not cover every element of {wty.describe()}", line)
                slots[i] = others
        all_static = all(s.static is not NOSTATIC for s in slots)
        if wty.kind == "vec":
            st = "".join(s.static for s in slots) if all_static else NOSTATIC
            code = repr(st) if all_static else "(" + " + ".join(s.code for s in slots) + ")"
        else:
            st = tuple(s.static for s in slots) if all_static else NOSTATIC
            code = repr(st) if all_static else "(" + ", ".join(s.code for s in slots) + ",)"
        return X(wty, code, st)

    def unop(self, n, key):
        _, line, op, a = n
        x = self.expr(a, key)
        if op == "not":
            if key == "bool":
                return X(T_BOOL, f"(not {x.code})", (not x.static) if x.static is not NOSTATIC else NOSTATIC)
            if key == "sl":
                return X(T_SL, f"I.NOT_T[{x.code}]")
            return X(x.ty, f"I.vec_not({x.code})")
        if key == "int":
            if op == "abs":
                return X(T_INT, f"abs({x.code})", abs(x.static) if x.static is not NOSTATIC else NOSTATIC)
            if op == "-":
                return X(T_INT, f"(-{x.code})", -x.static if x.static is not NOSTATIC else NOSTATIC)
            return x
        if key == "sig":
            rty = vec_ty("sig", x.ty.length)
            if op == "abs":
                return X(rty, f"I.abs_s({x.code})")
            if op == "-":
                return X(rty, f"I.neg_s({x.code})")
            return x
        raise VhdlError("type", f"operator {op} is not defined for {self.fmt_key(key)}", line)

    def binop(self, n, key):
        _, line, op, a, b = n
        rows = [r for r in self.binop_rows(op, self.cands(a), self.cands(b)) if r[2] == key]
        if not rows:
            raise VhdlError("type", f"no '{op}' operator for these operand types yields {self.fmt_key(key)}", line)
        if len(rows) > 1:
            raise VhdlError("type", f"operator '{op}' is ambiguous here ({len(rows)} interpretations)", line)
        lk, rk, _ = rows[0]
        x = self.expr(a, lk)
        y = self.expr(b, rk)
        both_static = x.static is not NOSTATIC and y.static is not NOSTATIC
        if op in LOGICAL:
            if lk == "bool":
                pyop = {"and": "{0} and {1}", "or": "{0} or {1}", "xor": "{0} != {1}", "nand": "not ({0} and {1})", "nor": "not ({0} or {1})", "xnor": "{0} == {1}"}[op]
                return X(T_BOOL, "(" + pyop.format(x.code, y.code) + ")")
            if lk == "sl":
                return X(T_SL, f"I.sl_{op}({x.code}, {y.code})")
            if x.ty.length != y.ty.length:
                raise VhdlError("width", f"'{op}' on vectors of length {x.ty.length} and {y.ty.length}", line)
            return X(Ty("vec", base=lk, left=x.ty.left, dir=x.ty.dir, right=x.ty.right), f"I.vec_{op}({x.code}, {y.code})")
        if op in RELEQ or op in RELORD:
            if lk in ("uns", "sig") or rk in ("uns", "sig"):
                kind = "u" if "uns" in (lk, rk) else "s"
                return X(T_BOOL, f"I.cmp({op!r}, {kind!r}, {x.code}, {y.code})")
            if op in RELEQ:
                if lk == "slv" and x.ty.length != y.ty.length:
                    raise VhdlError("width", f"comparison of std_logic_vectors of length {x.ty.length} and {y.ty.length} is always false", line)
                pyop = "==" if op == "=" else "!="
                st = NOSTATIC
                if both_static:
                    st = (x.static == y.static) if op == "=" else (x.static != y.static)
                return X(T_BOOL, f"({x.code} {pyop} {y.code})", st)
            if lk in ("int", "bool") or (isinstance(lk, tuple) and lk[0] == "enum"):
                return X(T_BOOL, f"({x.code} {op} {y.code})")
            if lk in ("sl", "slv"):
                return X(T_BOOL, f"I.lex_cmp({op!r}, {x.code}, {y.code})")
            raise VhdlError("type", f"ordering operator {op} on {self.fmt_key(lk)}", line)
        if op == "&":
            ln = (1 if lk == "sl" else x.ty.length) + (1 if rk == "sl" else y.ty.length)
            st = x.static + y.static if both_static else NOSTATIC
            return X(vec_ty(key, ln), f"({x.code} + {y.code})", st)
        if op == "**":
            return X(T_INT, f"I.int_pow({x.code}, {y.code})", I.int_pow(x.static, y.static) if both_static else NOSTATIC)
        # arithmetic
        if key == "int":
            if both_static:
                try:
                    v = {"+": lambda p, q: p + q, "-": lambda p, q: p - q, "*": lambda p, q: p * q, "/": I.int_div, "mod": I.int_mod, "rem": I.int_rem}[op](x.static, y.static)
                except I.SimError as e:
                    raise VhdlError("static-eval", str(e), line)
                return X(T_INT, repr(v), v)
            if op in ("+", "-", "*"):
                return X(T_INT, f"I.chk_int({x.code} {op} {y.code})")
            fn = {"/": "int_div", "mod": "int_mod", "rem": "int_rem"}[op]
            return X(T_INT, f"I.{fn}({x.code}, {y.code})")
        kind = "u" if key == "uns" else "s"
        la = None if lk == "int" else x.ty.length
        lb = None if rk == "int" else y.ty.length
        if op in ("+", "-"):
            ln = max(l for l in (la, lb) if l is not None)
        elif op == "*":
            ln = (la if la is not None else lb) + (lb if lb is not None else la)
        elif op == "/":
            ln = la if la is not None else lb
        else:
            ln = lb if lb is not None else la
        if lk == "int" and _is_static_int(x) and key == "uns" and x.static < 0:
            raise VhdlError("type", f"negative literal {x.static} combined with an unsigned operand", line)
        if rk == "int" and _is_static_int(y) and key == "uns" and y.static < 0:
            raise VhdlError("type", f"negative literal {y.static} combined with an unsigned operand", line)
        return X(vec_ty(key, ln), f"I.arith({op!r}, {kind!r}, {x.code}, {y.code})")

    def apply(self, n, key, wty):
        _, line, head, args = n
        if head[0] == "name":
            e = self.scope.lookup(head[2])
            if isinstance(e, TypeEntry):
                return self.type_conversion(e.ty, args, line)
            if isinstance(e, FuncEntry):
                if len(args) != len(e.params):
                    raise VhdlError("type", f"function {e.name} called with {len(args)} arguments", line)
                codes = []
                for a, pt in zip(args, e.params):
                    x = self.expr(a, pt)
                    self.el.check_assignable(pt, x, line, f"argument of {e.name}")
                    codes.append(x.code)
                self.used_funcs.add(e.pyname)
                return X(e.ret, f"{e.pyname}({', '.join(codes)})")
            if isinstance(e, tuple) and e[0] == "predef-func":
                return self.predef_call(e[1], args, line, key)
        # indexing / slicing of a value
        if head[0] == "name" and (head[2].lower() in PREDEF_FUNCS or head[2].lower() in PREDEF_TYPES):
            try:
                return self.index_value(n)
            except VhdlError as err:
                if err.rule == "hides-predefined":
                    raise
                raise VhdlError("hides-predefined", f"'{head[2]}' is declared as an object and hides the predefined name the text relies on ({err.msg})", line)
        return self.index_value(n)

    def index_value(self, n):
        _, line, head, args = n
        if head[0] == "name":
            o = self.scope.lookup(head[2])
            if not isinstance(o, Obj):
                raise VhdlError("type", f"'{head[2]}' cannot be indexed or called", line)
            base = X(o.ty, self.read_obj(o, line), o.static)
        else:
            base = self.expr(head, None)
        step, nty, dyn = self.path_step(base.ty, args, line)
        if dyn:
            code = f"{base.code}[{step}]"
            return X(nty, code)
        p, ln = step
        st = NOSTATIC
        if ln is None:
            if base.static is not NOSTATIC:
                st = base.static[p]
            return X(nty, f"{base.code}[{p}]", st)
        if base.static is not NOSTATIC:
            st = base.static[p : p + ln]
        return X(nty, f"{base.code}[{p}:{p + ln}]", st)

    def path_step(self, ty, args, line):
        """-> (step, result type, dynamic).  static step = (pos, None|len); dynamic step = code of position"""
        if len(args) != 1:
            raise VhdlError("type", f"{ty.describe()} indexed with {len(args)} expressions", line)
        a = args[0]
        if ty.kind not in ("vec", "arr"):
            raise VhdlError("type", f"object of type {ty.describe()} cannot be indexed", line)
        if ty.left is None:
            raise Unsupported("index of unconstrained value")
        ety = T_SL if ty.kind == "vec" else ty.elem
        if a[0] == "range":
            if ty.kind != "vec":
                raise Unsupported("slice of an array of composites")
            l, d, r = self.range_static(a)
            if l is None:
                raise Unsupported("non-static slice")
            if d != ty.dir:
                n_el = (l - r + 1) if d == "downto" else (r - l + 1)
                if n_el > 1 or ty.length > 1:
                    if n_el >= 1:
                        raise VhdlError("slice-direction", f"slice ({l} {d} {r}) of {ty.describe()} has the wrong direction", line)
            n_el = (l - r + 1) if d == "downto" else (r - l + 1)
            if n_el <= 0:
                raise VhdlError("width", f"null slice ({l} {d} {r})", line)
            p0 = ty.pos(l)
            p1 = ty.pos(r)
            if p0 is None or p1 is None:
                raise VhdlError("index-range", f"slice ({l} {d} {r}) is outside {ty.describe()}", line)
            return (p0, n_el), Ty("vec", base=ty.base, left=l, dir=d, right=r), False
        ix = self.expr(a, "int")
        if _is_static_int(ix):
            p = ty.pos(ix.static)
            if p is None:
                raise VhdlError("index-range", f"index {ix.static} is outside {ty.describe()}", line)
            return (p, None), ety, False
        sgn = -1 if ty.dir == "downto" else 1
        return f"K.idx({ix.code}, {ty.left}, {sgn}, {ty.length})", ety, True

    def type_conversion(self, t, args, line):
        if len(args) != 1:
            raise VhdlError("type", "type conversion takes exactly one operand", line)
        a = args[0]
        c = self.cands(a)
        if isinstance(t, str):
            src = c & set(VEC_KINDS)
            if a[0] in ("str", "agg") or (a[0] == "paren" and a[2][0] in ("str", "agg")):
                raise VhdlError("type", "operand of a type conversion must have a type of its own (string literal / aggregate)", line)
            if len(src) != 1:
                if not src:
                    raise VhdlError("type", f"cannot convert {self.fmt_keys(c)} to {self.fmt_key(t)}", line)
                raise VhdlError("type", "operand of type conversion is ambiguous", line)
            x = self.expr(a, next(iter(src)))
            return X(Ty("vec", base=t, left=x.ty.left, dir=x.ty.dir, right=x.ty.right), x.code, x.static)
        if t.kind == "int":
            if "int" not in c:
                raise VhdlError("type", f"cannot convert {self.fmt_keys(c)} to integer", line)
            return self.expr(a, "int")
        if len(c) == 1 and next(iter(c)) == t.key:
            return self.expr(a, t)
        raise VhdlError("type", f"cannot convert {self.fmt_keys(c)} to {t.describe()}", line)

    def predef_call(self, f, args, line, key):
        def nargs(k):
            if len(args) != k:
                raise VhdlError("type", f"{f} called with {len(args)} arguments", line)

        if f in ("rising_edge", "falling_edge"):
            nargs(1)
            ref = self.el.static_signal_ref(args[0], self.scope)
            if ref is None:
                raise VhdlError("type", f"{f} needs a signal", line)
            o, path, ty, dyn = ref
            if dyn or ty.kind != "sl":
                raise VhdlError("type", f"{f} needs a static std_logic signal", line)
            if o.cls == "port" and o.mode == "out" and self.el.strict_out_read:
                raise VhdlError("read-out-port", f"output port '{o.name}' is read", line)
            if self.proc is None:
                raise Unsupported("edge function outside process")
            self.proc.reads.add(o.sid)
            self.proc.edge_signals.add(o.sid)
            if self.guard_depth == 0:
                self.proc.reads_unguarded.add(o.sid)
            full = o.path + path
            fn = "rising" if f == "rising_edge" else "falling"
            return X(T_BOOL, f"K.edge_{fn}({o.sid}, {full!r})")
        if f == "to_integer":
            nargs(1)
            c = self.cands(args[0]) & {"uns", "sig"}
            if len(c) != 1:
                raise VhdlError("type", f"to_integer of {self.fmt_keys(self.cands(args[0]))}", line)
            x = self.expr(args[0], next(iter(c)))
            fn = "to_integer_u" if x.ty.base == "uns" else "to_integer_s"
            return X(T_INT, f"I.{fn}({x.code})")
        if f in ("to_unsigned", "to_signed"):
            nargs(2)
            v = self.expr(args[0], "int")
            sz = self.expr(args[1], "int")
            if not _is_static_int(sz):
                raise Unsupported(f"{f} with non-static size")
            base = "uns" if f == "to_unsigned" else "sig"
            if _is_static_int(v):
                try:
                    val = (I.to_unsigned if base == "uns" else I.to_signed)(v.static, sz.static)
                except I.SimError as e:
                    raise VhdlError("static-eval", str(e), line)
                if base == "uns" and v.static >> sz.static:
                    raise VhdlError("width", f"to_unsigned({v.static}, {sz.static}) truncates the value", line)
                if base == "sig" and sz.static and not (-(1 << (sz.static - 1)) <= v.static < (1 << (sz.static - 1))):
                    raise VhdlError("width", f"to_signed({v.static}, {sz.static}) truncates the value", line)
                return X(vec_ty(base, sz.static), repr(val), val)
            return X(vec_ty(base, sz.static), f"I.{f}({v.code}, {sz.static})")
        if f == "resize":
            nargs(2)
            x = self.expr(args[0], key)
            sz = self.expr(args[1], "int")
            if not _is_static_int(sz):
                raise Unsupported("resize with non-static size")
            fn = "resize_u" if key == "uns" else "resize_s"
            return X(vec_ty(key, sz.static), f"I.{fn}({x.code}, {sz.static})")
        if f in ("shift_left", "shift_right", "rotate_left", "rotate_right"):
            nargs(2)
            x = self.expr(args[0], key)
            k = self.expr(args[1], "int")
            if _is_static_int(k) and k.static < 0:
                raise VhdlError("type", f"{f} by a negative constant", line)
            fn = f
            if f == "shift_right":
                fn = "shift_right_u" if key == "uns" else "shift_right_s"
            return X(vec_ty(key, x.ty.length), f"I.{fn}({x.code}, {k.code})")
        raise Unsupported(f"predefined function {f}")

    # ---- statements ------------------------------------------------------------------------------
    def stmts(self, body):
        if not body:
            self.emit("pass")
        for s in body:
            self.stmt(s)

    def is_edge_cond(self, cond):
        c = cond
        while c[0] == "paren":
            c = c[2]
        if c[0] == "apply" and c[2][0] == "name" and c[2][2].lower() in ("rising_edge", "falling_edge"):
            e = self.scope.lookup(c[2][2])
            return isinstance(e, tuple) and e[0] == "predef-func"
        if c[0] == "binop" and c[2] == "and":
            return self.is_edge_cond(c[3]) or self.is_edge_cond(c[4])
        if c[0] == "binop" and c[2] == "or":
            return self.is_edge_cond(c[3]) and self.is_edge_cond(c[4])
        return False

    def stmt(self, s):
        k = s[0]
        line = s[1]
        if k == "sassign":
            self.assign(s[2], s[3], line, signal=True)
        elif k == "vassign":
            self.assign(s[2], s[3], line, signal=False)
        elif k == "if":
            _, _, branches, orelse = s
            first = True
            for cond, body in branches:
                cx = self.expr(cond, "bool")
                edge = self.is_edge_cond(cond)
                if edge and self.proc is not None:
                    self.proc.edge_guarded = True
                self.emit(("if " if first else "elif ") + cx.code + ":")
                first = False
                self.branch_count += 1
                self.indent += 1
                if edge:
                    self.guard_depth += 1
                self.stmts(body)
                if edge:
                    self.guard_depth -= 1
                self.indent -= 1
            if orelse is not None:
                self.emit("else:")
                self.branch_count += 1
                self.indent += 1
                self.stmts(orelse)
                self.indent -= 1
        elif k == "case":
            self.case(s)
        elif k == "null":
            self.emit("pass")
        elif k == "assert":
            _, _, cond, msg, sev = s
            cx = self.expr(cond, "bool")
            m = ""
            if msg is not None:
                if msg[0] != "str":
                    raise Unsupported("non-literal report message")
                m = msg[2]
            if sev is not None and sev.lower() not in ("note", "warning", "error", "failure"):
                raise VhdlError("undeclared", f"severity level '{sev}'", line)
            pid = self.proc.pid if self.proc is not None else -1
            self.emit(f"if not {cx.code}: K.assert_fail({pid}, {m!r}, {(sev or 'error').lower()!r})")
        elif k == "report":
            self.emit("pass")
        elif k == "return":
            if self.in_function is None:
                raise VhdlError("syntax", "return outside a function", line)
            x = self.expr(s[2], self.in_function.ret)
            self.el.check_assignable(self.in_function.ret, x, line, "return value")
            self.emit(f"return {x.code}")
        elif k == "for":
            raise Unsupported("for loop")
        else:
            raise Unsupported(f"statement {k}")

    def case(self, s):
        _, line, sel, alts = s
        sx = self.expr(sel, None)
        ty = sx.ty
        self.tmp += 1
        sv = f"_c{self.tmp}"
        self.emit(f"{sv} = {sx.code}")
        seen = set()
        have_others = False
        first = True
        if not alts:
            raise VhdlError("case", "case statement without alternatives", line)
        for i, (choices, body) in enumerate(alts):
            vals = []
            is_others = False
            for c in choices:
                if c[0] == "others":
                    if len(choices) != 1:
                        raise VhdlError("case", "others combined with further choices", line)
                    if i != len(alts) - 1:
                        raise VhdlError("case", "others is not the last alternative", line)
                    is_others = True
                    have_others = True
                    continue
                if c[0] == "range":
                    if ty.kind != "int":
                        raise Unsupported("range choice on non-integer")
                    l, d, r = self.range_static(c)
                    rng = range(l, r - 1, -1) if d == "downto" else range(l, r + 1)
                    for v in rng:
                        if v in seen:
                            raise VhdlError("duplicate-choice", f"case choice {v} appears twice", line)
                        seen.add(v)
                        vals.append(v)
                    continue
                cx = self.expr(c, ty)
                if cx.static is NOSTATIC:
                    raise VhdlError("case", "case choice is not static", line)
                if ty.kind == "vec" and cx.ty.length != ty.length:
                    raise VhdlError("width", f"case choice is {cx.ty.length} wide, selector is {ty.length} wide", line)
                if cx.static in seen:
                    raise VhdlError("duplicate-choice", f"case choice {self.fmt_choice(ty, cx.static)} appears twice", line)
                seen.add(cx.static)
                vals.append(cx.static)
            if is_others:
                self.emit("else:" if not first else "if True:")
            else:
                cond = " or ".join(f"{sv} == {v!r}" for v in vals) if len(vals) < 4 else f"{sv} in {tuple(vals)!r}"
                self.emit(("if " if first else "elif ") + cond + ":")
            first = False
            self.branch_count += 1
            self.indent += 1
            self.stmts(body)
            self.indent -= 1
        if not have_others:
            total = {"bool": 2, "sl": 9}.get(ty.kind)
            if ty.kind == "enum":
                total = len(ty.lits)
            if ty.kind == "vec":
                total = 9**ty.length
            if total is None or len(seen) < total:
                raise VhdlError("case", "case statement has no others branch and its choices do not cover the selector type", line)
            self.emit("else:")
            self.indent += 1
            self.emit("raise SimError('case selector outside choices')")
            self.indent -= 1

    def fmt_choice(self, ty, v):
        if ty.kind == "enum":
            return ty.lits[v]
        return repr(v)

    def target(self, t, signal, line):
        """-> (Obj, static_path tuple, dyn code list or None, Ty)"""
        while t[0] == "paren":
            t = t[2]
        if t[0] == "name":
            o = self.scope.lookup(t[2])
            if o is None:
                raise VhdlError("undeclared", f"'{t[2]}' is not declared", t[1])
            if not isinstance(o, Obj):
                raise VhdlError("type", f"'{t[2]}' is not an object that can be assigned", t[1])
            return o, [], o.ty
        if t[0] == "apply":
            o, steps, ty = self.target(t[2], signal, line)
            step, nty, dyn = self.path_step(ty, t[3], t[1])
            return o, steps + [(step, dyn)], nty
        raise Unsupported("assignment target shape")

    def assign(self, t, v, line, signal):
        o, steps, tty = self.target(t, signal, line)
        if signal:
            if o.cls not in ("signal", "port"):
                raise VhdlError("assign-kind", f"signal assignment '<=' to {o.cls} '{o.name}'", line)
            if o.cls == "port" and o.mode == "in":
                raise VhdlError("assign-to-input", f"input port '{o.name}' is assigned", line)
            if self.in_function is not None:
                raise VhdlError("assign-kind", "signal assignment inside a function", line)
        else:
            if o.cls not in ("variable",):
                raise VhdlError("assign-kind", f"variable assignment ':=' to {o.cls} '{o.name}'", line)
        x = self.expr(v, tty)
        self.el.check_assignable(tty, x, line, f"assignment to {o.name}")
        if signal:
            p = self.proc
            p.writes.add(o.sid)
            if self.guard_depth == 0:
                p.writes_unguarded.add(o.sid)
            static_path = list(o.path)
            dyn = False
            parts = [repr(st) for st in o.path]
            for step, d in steps:
                if d:
                    dyn = True
                    parts.append(f"({step}, None)")
                else:
                    static_path.append(step)
                    parts.append(repr(step))
            p.write_paths.setdefault(o.sid, []).append(None if dyn else tuple(static_path))
            if not parts:
                self.emit(f"T(({o.sid}, None, {x.code}, {p.pid}))")
            else:
                self.emit(f"T(({o.sid}, ({', '.join(parts)},), {x.code}, {p.pid}))")
        else:
            if not steps:
                self.emit(f"{o.pyname} = {x.code}")
            else:
                parts = []
                for step, d in steps:
                    parts.append(f"({step}, None)" if d else repr(step))
                self.emit(f"{o.pyname} = K.setp({o.pyname}, ({', '.join(parts)},), {x.code})")


def elaborate_text(text, top=None, temp_names=None, strict_out_read=True):
    units = parse(text)
    el = Elaborator(units, temp_names=temp_names, strict_out_read=strict_out_read)
    d = el.elaborate(top)
    d.func_src = getattr(el, "func_src", {})
    return d
