"""VSIM kernel: IEEE-1076 simulation cycle (signal update, event detection, process resumption,
delta cycles) with every scheduling decision drawn from a caller-supplied seeded stream.

Time is owned by the caller (testbench): the kernel offers ``poke`` (schedule a testbench-driven
transaction for the next delta) and ``settle`` (run delta cycles until quiescent).
"""
from __future__ import annotations

from . import ieee as I
from .ieee import SimError


class Oscillation(SimError):
    pass


class ReadBeforeWrite(Exception):
    """M-rbw: a compiler-generated process variable was read before being written in this activation"""

    def __init__(self, proc, var):
        super().__init__(f"process {proc} reads intermediate '{var}' before writing it in the same activation")
        self.proc = proc
        self.var = var


class Sim:
    MAX_DELTAS = 1000

    def __init__(self, design, order=None, log=None, check_sens=False):
        """order: callable(list_of_pids) -> list_of_pids (a permutation); None = source order.
        log: optional list receiving ('ev', delta_no, sid, value) tuples for determinism digests."""
        self.d = design
        self.V = [s.init for s in design.signals]
        self.E = {}
        self.pending = []
        self.order = order
        self.log = log
        self.asserts = []  # (pid, message, severity, delta_count)
        self.driver_conflicts = []  # (sid, pid_a, pid_b)
        self.driver_of = {}
        self.delta_count = 0
        self.activations = 0
        self.reorders = 0
        self.check_sens = check_sens
        self.sens_violations = []
        self.trace_hook = None
        self._pvars = []
        self.runs = []
        F = {}
        ns = {"I": I, "SimError": SimError, "K": self}
        for name, src in getattr(design, "func_src", {}).items():
            exec(compile(src, f"<vsim-func:{name}>", "exec"), ns)
            F[name] = ns[name]
        T = self.pending.append
        for p in design.procs:
            L = list(p.var_inits)
            self._pvars.append(L)
            self.runs.append(p.factory(self.V, T, self, L, I, SimError, F))
        self.sens_map = {}
        for p in design.procs:
            for sid in p.sens:
                self.sens_map.setdefault(sid, []).append(p.pid)
        self.act_count = [0] * len(design.procs)
        groups = {}
        self.gid = [groups.setdefault(p.group, len(groups)) for p in design.procs]
        self.group_names = {v: k for k, v in groups.items()}
        self.initialised = False

    # ---- helpers used by generated code ---------------------------------------------------------
    @staticmethod
    def idx(i, left, sgn, length):
        p = (i - left) * sgn
        if 0 <= p < length:
            return p
        raise SimError(f"index {i} out of range (left bound {left}, length {length})")

    @staticmethod
    def setp(cur, path, val):
        (p, n) = path[0]
        rest = path[1:]
        if n is None:
            if not (0 <= p < len(cur)):
                raise SimError("index out of range in assignment")
            new = Sim.setp(cur[p], rest, val) if rest else val
            if isinstance(cur, str):
                return cur[:p] + new + cur[p + 1 :]
            return cur[:p] + (new,) + cur[p + 1 :]
        seg = cur[p : p + n]
        new = Sim.setp(seg, rest, val) if rest else val
        return cur[:p] + new + cur[p + n :]

    @staticmethod
    def getp(cur, path):
        for p, n in path:
            cur = cur[p] if n is None else cur[p : p + n]
        return cur

    def edge_rising(self, sid, path):
        old = self.E.get(sid)
        if old is None:
            return False
        return I.rising(self.getp(old, path), self.getp(self.V[sid], path))

    def edge_falling(self, sid, path):
        old = self.E.get(sid)
        if old is None:
            return False
        return I.falling(self.getp(old, path), self.getp(self.V[sid], path))

    def assert_fail(self, pid, msg, sev):
        self.asserts.append((pid, msg, sev, self.delta_count))

    def _leaf_drivers(self, sid, path, pid, prev):
        """per-scalar-subelement driver bookkeeping (VHDL drivers exist per scalar subelement)"""
        ty = self.d.signals[sid].ty
        total = leaf_count(ty)
        if prev is None:
            tab = [None] * total
        elif type(prev) is int:
            tab = [prev] * total
        else:
            tab = prev
        lo, cnt = leaf_range(ty, path or ())
        for i in range(lo, lo + cnt):
            q = tab[i]
            if q is None:
                tab[i] = pid
            elif q != pid:
                self.driver_conflicts.append((sid, q, pid))
                break
        return tab

    # ---- testbench interface ---------------------------------------------------------------------
    def poke(self, sid, value, path=None):
        self.pending.append((sid, path, value, -1))

    def peek(self, sid):
        return self.V[sid]

    def run_proc(self, pid):
        self.activations += 1
        self.act_count[pid] += 1
        try:
            self.runs[pid]()
        except UnboundLocalError as e:
            p = self.d.procs[pid]
            name = getattr(e, "name", None) or str(e)
            raise ReadBeforeWrite(f"{p.hier}:{p.label or p.kind}@{p.line}", name[2:] if name.startswith("v_") else name) from None
        except NameError as e:
            p = self.d.procs[pid]
            name = getattr(e, "name", None) or str(e)
            if isinstance(name, str) and name.startswith("v_"):
                raise ReadBeforeWrite(f"{p.hier}:{p.label or p.kind}@{p.line}", name[2:]) from None
            raise
        if self.trace_hook is not None:
            self.trace_hook(pid)

    def initialise(self):
        pids = list(range(len(self.runs)))
        if self.order is not None:
            pids = self.order(pids)
        self.E.clear()
        for pid in pids:
            self.run_proc(pid)
        self.initialised = True
        self.settle()

    def step_delta(self):
        """one simulation cycle at the current time: update signals, find events, run the
        processes sensitive to them.  Returns False when nothing was pending."""
        pending = self.pending
        if not pending:
            return False
        V = self.V
        E = self.E
        driver_of = self.driver_of
        txs = pending[:]
        del pending[:]
        E.clear()
        setp = self.setp
        gid = self.gid
        for sid, path, val, pid in txs:
            cur = V[sid]
            new = val if path is None else setp(cur, path, val)
            if pid >= 0:
                pid = gid[pid]
                prev = driver_of.get(sid)
                if prev is None:
                    driver_of[sid] = pid if path is None else self._leaf_drivers(sid, path, pid, None)
                elif prev != pid:
                    if path is None and type(prev) is int:
                        self.driver_conflicts.append((sid, prev, pid))
                    else:
                        driver_of[sid] = self._leaf_drivers(sid, path, pid, prev)
            if new != cur:
                if sid not in E:
                    E[sid] = cur
                V[sid] = new
        # net events only
        for sid in [s for s, old in E.items() if V[s] == old]:
            del E[sid]
        self.delta_count += 1
        if self.log is not None:
            for sid in sorted(E):
                self.log.append((self.delta_count, sid, V[sid]))
        if not E:
            return True
        sens_map = self.sens_map
        runnable = []
        seen = set()
        for sid in E:
            for pid in sens_map.get(sid, ()):
                if pid not in seen:
                    seen.add(pid)
                    runnable.append(pid)
        runnable.sort()
        if self.order is not None and len(runnable) > 1:
            perm = self.order(runnable)
            if perm != runnable:
                self.reorders += 1
            runnable = perm
        for pid in runnable:
            self.run_proc(pid)
        return True

    def settle(self):
        """run delta cycles until no transaction is pending; returns number of deltas"""
        deltas = 0
        while self.step_delta():
            deltas += 1
            if deltas > self.MAX_DELTAS:
                raise Oscillation(f"more than {self.MAX_DELTAS} delta cycles at one time point")
        self.E.clear()
        if self.check_sens:
            self._check_sens()
        return deltas

    def _check_sens(self):
        """M-sens, dynamic part: re-execute every pure combinational process virtually; if a target
        would change, the sensitivity list was incomplete for the event order of this run."""
        V = self.V
        for p in self.d.procs:
            if p.edge_guarded or p.persistent or p.kind == "cassert":
                continue
            n0 = len(self.pending)
            na = len(self.asserts)
            self.runs[p.pid]()
            txs = self.pending[n0:]
            del self.pending[n0:]
            del self.asserts[na:]
            # apply in order to a scratch copy of the targets
            scratch = {}
            for sid, path, val, pid in txs:
                cur = scratch.get(sid, V[sid])
                scratch[sid] = val if path is None else self.setp(cur, path, val)
            for sid, new in scratch.items():
                if new != V[sid]:
                    self.sens_violations.append((p.pid, sid, V[sid], new))

    # ---- snapshots (quiescent state only) ------------------------------------------------------------
    def snapshot(self):
        assert not self.pending, "snapshot needs a settled simulation"
        return (list(self.V), [list(l) for l in self._pvars], {k: (list(v) if isinstance(v, list) else v) for k, v in self.driver_of.items()})

    def restore(self, snap):
        self.V[:] = snap[0]
        for l, s in zip(self._pvars, snap[1]):
            l[:] = s
        self.driver_of.clear()
        self.driver_of.update({k: (list(v) if isinstance(v, list) else v) for k, v in snap[2].items()})
        del self.pending[:]
        self.E.clear()

    # ---- introspection ------------------------------------------------------------------------------
    def persistent_vars(self, pid):
        p = self.d.procs[pid]
        return dict(zip(p.persistent, self._pvars[pid]))


def leaf_count(ty):
    if ty.kind == "vec":
        return ty.length
    if ty.kind == "arr":
        return ty.length * leaf_count(ty.elem)
    return 1


def leaf_range(ty, path):
    """(first leaf, number of leaves) addressed by a static/dynamic path inside a value of type ty"""
    off = 0
    cnt = leaf_count(ty)
    for p, n in path:
        if ty.kind == "arr":
            lc = leaf_count(ty.elem)
            off += p * lc
            cnt = lc
            ty = ty.elem
        else:  # vec
            off += p
            cnt = 1 if n is None else n
    return off, cnt


def format_value(ty, v):
    if ty.kind == "enum":
        return ty.lits[v]
    if ty.kind == "arr":
        return "(" + ", ".join(format_value(ty.elem, e) for e in v) + ")"
    return str(v)
