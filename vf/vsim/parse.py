"""Lexer and recursive-descent parser for the VHDL subset emitted by CoHDL (plus a margin).

AST nodes are plain tuples ``(kind, line, ...)``.  A construct that is legal VHDL but outside
the supported subset raises :class:`Unsupported`; text that is not VHDL at all raises
:class:`VhdlSyntaxError` (definitely illegal).
"""
from __future__ import annotations

import re


class VhdlError(Exception):
    """Definitely-illegal VHDL (rule name in .rule)."""

    def __init__(self, rule, msg, line=0):
        super().__init__(f"[{rule}] line {line}: {msg}")
        self.rule = rule
        self.msg = msg
        self.line = line


class VhdlSyntaxError(VhdlError):
    def __init__(self, msg, line=0):
        super().__init__("syntax", msg, line)


class Unsupported(Exception):
    """Legal VHDL outside the simulator's subset: a harness limitation, never a violation."""


RESERVED = frozenset(
    """abs access after alias all and architecture array assert assume assume_guarantee attribute
begin block body buffer bus case component configuration constant context cover default disconnect
downto else elsif end entity exit fairness file for force function generate generic group guarded
if impure in inertial inout is label library linkage literal loop map mod nand new next nor not
null of on open or others out package parameter port postponed procedure process property protected
pure range record register reject release rem report restrict restrict_guarantee return rol ror
select sequence severity shared signal sla sll sra srl strong subtype then to transport type
unaffected units until use variable vmode vprop vunit wait when while with xnor xor""".split()
)

_TOKEN_RE = re.compile(
    r"""
    (?P<ws>[ \t\r\n]+)
  | (?P<comment>--[^\n]*)
  | (?P<bitstr>[0-9]*[xXbBoO]"[0-9a-fA-F_]*")
  | (?P<ident>[A-Za-z][A-Za-z0-9_]*)
  | (?P<extid>\\[^\\\n]+\\)
  | (?P<num>[0-9][0-9_]*(?:\.[0-9_]+)?(?:[eE][+-]?[0-9]+)?)
  | (?P<str>"(?:[^"\n]|"")*")
  | (?P<op>=>|\*\*|:=|/=|>=|<=|<>|\?\?|[&'()*+,\-./:;<=>|\[\]])
""",
    re.X,
)


class Tok:
    __slots__ = ("kind", "val", "line")

    def __init__(self, kind, val, line):
        self.kind = kind  # 'id' 'kw' 'num' 'str' 'chr' 'bitstr' 'op' 'eof'
        self.val = val
        self.line = line

    def __repr__(self):
        return f"{self.kind}:{self.val!r}@{self.line}"


def lex(text, markers=None):
    toks = []
    pos = 0
    line = 1
    n = len(text)
    while pos < n:
        ch = text[pos]
        # character literal: 'x' — only when the previous token cannot end a name
        if ch == "'" and pos + 2 < n and text[pos + 2] == "'":
            prev = toks[-1] if toks else None
            is_tick = prev is not None and (
                prev.kind == "id" or (prev.kind == "op" and prev.val in (")", "]")) or (prev.kind == "kw" and prev.val == "all")
            )
            # name'('x') : after a tick-paren the char literal follows '(' so prev is '(' -> literal
            if not is_tick:
                toks.append(Tok("chr", text[pos + 1], line))
                pos += 3
                continue
        m = _TOKEN_RE.match(text, pos)
        if not m:
            raise VhdlSyntaxError(f"unexpected character {ch!r}", line)
        kind = m.lastgroup
        s = m.group()
        if kind == "ws":
            line += s.count("\n")
        elif kind == "comment":
            if markers is not None and s.startswith("-- CONCURRENT BLOCK"):
                markers.append(len(toks))
        elif kind == "ident":
            low = s.lower()
            if low in RESERVED:
                toks.append(Tok("kw", low, line))
            else:
                if "__" in s or s.endswith("_"):
                    raise VhdlError("identifier", f"malformed identifier {s!r}", line)
                toks.append(Tok("id", s, line))
        elif kind == "extid":
            raise Unsupported(f"extended identifier {s} line {line}")
        elif kind == "num":
            if "." in s or "e" in s.lower():
                raise Unsupported(f"real literal {s} line {line}")
            # a number directly followed by a letter is malformed (e.g. 1abc)
            if m.end() < n and (text[m.end()].isalpha() or text[m.end()] == "_"):
                raise VhdlError("identifier", f"malformed identifier/number {text[pos:m.end()+8].split()[0]!r}", line)
            toks.append(Tok("num", int(s.replace("_", "")), line))
        elif kind == "str":
            toks.append(Tok("str", s[1:-1].replace('""', '"'), line))
        elif kind == "bitstr":
            i = s.index('"')
            base = s[i - 1].lower()
            digits = s[i + 1 : -1].replace("_", "")
            bits = {"x": 4, "o": 3, "b": 1}[base]
            val = "".join(format(int(c, 16), f"0{bits}b") for c in digits)
            if i > 1:
                raise Unsupported("sized bit string literal")
            toks.append(Tok("str", val, line))
        else:
            toks.append(Tok("op", s, line))
        pos = m.end()
    toks.append(Tok("eof", None, line))
    return toks


class Parser:
    def __init__(self, text):
        self.markers = []
        self.toks = lex(text, self.markers)
        self.i = 0

    # -- helpers --------------------------------------------------------------------------
    @property
    def t(self):
        return self.toks[self.i]

    def peek(self, k=1):
        return self.toks[min(self.i + k, len(self.toks) - 1)]

    def adv(self):
        t = self.toks[self.i]
        self.i += 1
        return t

    def is_kw(self, *kws):
        return self.t.kind == "kw" and self.t.val in kws

    def is_op(self, *ops):
        return self.t.kind == "op" and self.t.val in ops

    def accept_kw(self, *kws):
        if self.is_kw(*kws):
            return self.adv()
        return None

    def accept_op(self, *ops):
        if self.is_op(*ops):
            return self.adv()
        return None

    def expect_kw(self, kw):
        if not self.is_kw(kw):
            raise VhdlSyntaxError(f"expected '{kw}', found {self.t.val!r}", self.t.line)
        return self.adv()

    def expect_op(self, op):
        if not self.is_op(op):
            raise VhdlSyntaxError(f"expected '{op}', found {self.t.val!r}", self.t.line)
        return self.adv()

    def ident(self):
        if self.t.kind == "kw":
            raise VhdlError("reserved", f"reserved word '{self.t.val}' used as identifier", self.t.line)
        if self.t.kind != "id":
            raise VhdlSyntaxError(f"expected identifier, found {self.t.val!r}", self.t.line)
        return self.adv().val

    # -- design file ----------------------------------------------------------------------
    def design_file(self):
        units = []
        while self.t.kind != "eof":
            if self.is_kw("library"):
                self.adv()
                names = [self.ident()]
                while self.accept_op(","):
                    names.append(self.ident())
                self.expect_op(";")
                units.append(("library", names))
            elif self.is_kw("use"):
                self.adv()
                parts = [self.ident()]
                while self.accept_op("."):
                    if self.accept_kw("all"):
                        parts.append("all")
                    else:
                        parts.append(self.ident())
                self.expect_op(";")
                units.append(("use", parts))
            elif self.is_kw("entity"):
                units.append(self.entity_decl())
            elif self.is_kw("architecture"):
                units.append(self.architecture_body())
            elif self.is_kw("package", "configuration", "context"):
                raise Unsupported(f"design unit '{self.t.val}'")
            else:
                raise VhdlSyntaxError(f"unexpected {self.t.val!r} at design-unit level", self.t.line)
        return units

    def entity_decl(self):
        line = self.expect_kw("entity").line
        name = self.ident()
        self.expect_kw("is")
        generics = []
        ports = []
        if self.accept_kw("generic"):
            self.expect_op("(")
            generics = self.interface_list()
            self.expect_op(")")
            self.expect_op(";")
        if self.accept_kw("port"):
            self.expect_op("(")
            ports = self.interface_list()
            self.expect_op(")")
            self.expect_op(";")
        self.expect_kw("end")
        self.accept_kw("entity")
        if self.t.kind == "id":
            end_name = self.ident()
            if end_name.lower() != name.lower():
                raise VhdlError("end-name", f"entity {name} closed with name {end_name}", self.t.line)
        self.expect_op(";")
        return ("entity", line, name, generics, ports)

    def interface_list(self):
        items = []
        while True:
            line = self.t.line
            self.accept_kw("signal", "constant", "variable")
            names = [self.ident()]
            while self.accept_op(","):
                names.append(self.ident())
            self.expect_op(":")
            mode = "in"
            if self.is_kw("in", "out", "inout", "buffer", "linkage"):
                mode = self.adv().val
            st = self.subtype_indication()
            default = None
            if self.accept_op(":="):
                default = self.expr()
            for n in names:
                items.append(("iface", line, n, mode, st, default))
            if not self.accept_op(";"):
                break
        return items

    def subtype_indication(self):
        line = self.t.line
        name = self.ident()
        constraint = None
        if self.accept_kw("range"):
            raise Unsupported("range constraint on scalar subtype")
        if self.is_op("("):
            self.adv()
            constraint = self.range_()
            self.expect_op(")")
        return ("subtype", line, name, constraint)

    def range_(self):
        left = self.simple_expr()
        if self.is_kw("downto", "to"):
            d = self.adv().val
            right = self.simple_expr()
            return ("range", left[1] if isinstance(left, tuple) else 0, left, d, right)
        raise VhdlSyntaxError("expected range", self.t.line)

    def architecture_body(self):
        line = self.expect_kw("architecture").line
        name = self.ident()
        self.expect_kw("of")
        ent = self.ident()
        self.expect_kw("is")
        decls = self.declarations()
        self.expect_kw("begin")
        stmts = []
        groups = []
        gid = 0
        mk = set(self.markers)
        last_end = self.i
        while not self.is_kw("end"):
            # a "-- CONCURRENT BLOCK" comment between two statements starts a new CoHDL block;
            # processes and instantiations are always their own block
            if any(last_end <= m <= self.i for m in mk):
                gid += 1
            st = self.concurrent_stmt()
            if st[0] in ("process", "inst"):
                gid += 1
                groups.append(gid)
                gid += 1
            else:
                groups.append(gid)
            stmts.append(st)
            last_end = self.i
        self.expect_kw("end")
        self.accept_kw("architecture")
        if self.t.kind == "id":
            end_name = self.ident()
            if end_name.lower() != name.lower():
                raise VhdlError("end-name", f"architecture {name} closed with name {end_name}", self.t.line)
        self.expect_op(";")
        return ("architecture", line, name, ent, decls, stmts, groups)

    # -- declarations ---------------------------------------------------------------------
    def declarations(self):
        decls = []
        while True:
            if self.is_kw("signal", "variable", "constant", "shared"):
                if self.is_kw("shared"):
                    raise Unsupported("shared variable")
                kind = self.adv().val
                line = self.t.line
                names = [self.ident()]
                while self.accept_op(","):
                    names.append(self.ident())
                self.expect_op(":")
                st = self.subtype_indication()
                init = None
                if self.accept_op(":="):
                    init = self.expr()
                self.expect_op(";")
                for n in names:
                    decls.append(("objdecl", line, kind, n, st, init))
            elif self.is_kw("type"):
                line = self.adv().line
                name = self.ident()
                self.expect_kw("is")
                if self.accept_op("("):
                    lits = []
                    while True:
                        if self.t.kind == "chr":
                            raise Unsupported("character enumeration literal")
                        lits.append(self.ident())
                        if not self.accept_op(","):
                            break
                    self.expect_op(")")
                    self.expect_op(";")
                    decls.append(("enumtype", line, name, lits))
                elif self.accept_kw("array"):
                    self.expect_op("(")
                    if self.t.kind == "id" and self.peek().kind == "kw" and self.peek().val == "range":
                        raise Unsupported("unconstrained array type")
                    rng = self.range_()
                    self.expect_op(")")
                    self.expect_kw("of")
                    elem = self.subtype_indication()
                    self.expect_op(";")
                    decls.append(("arraytype", line, name, rng, elem))
                else:
                    raise Unsupported(f"type definition starting with {self.t.val!r}")
            elif self.is_kw("subtype"):
                raise Unsupported("subtype declaration")
            elif self.is_kw("function", "pure", "impure"):
                decls.append(self.function_body())
            elif self.is_kw("attribute"):
                line = self.adv().line
                name = self.ident()
                if self.accept_op(":"):
                    tm = self.ident()
                    self.expect_op(";")
                    decls.append(("attrdecl", line, name, tm))
                else:
                    self.expect_kw("of")
                    target = self.ident()
                    self.expect_op(":")
                    cls = self.adv().val
                    self.expect_kw("is")
                    val = self.expr()
                    self.expect_op(";")
                    decls.append(("attrspec", line, name, target, cls, val))
            elif self.is_kw("component"):
                decls.append(self.component_decl())
            elif self.is_kw("procedure", "alias", "file", "for", "use"):
                raise Unsupported(f"declaration '{self.t.val}'")
            else:
                break
        return decls

    def component_decl(self):
        line = self.expect_kw("component").line
        name = self.ident()
        self.accept_kw("is")
        generics = []
        ports = []
        if self.accept_kw("generic"):
            self.expect_op("(")
            generics = self.interface_list()
            self.expect_op(")")
            self.expect_op(";")
        if self.accept_kw("port"):
            self.expect_op("(")
            ports = self.interface_list()
            self.expect_op(")")
            self.expect_op(";")
        self.expect_kw("end")
        self.expect_kw("component")
        if self.t.kind == "id":
            self.ident()
        self.expect_op(";")
        return ("component", line, name, generics, ports)

    def function_body(self):
        self.accept_kw("pure", "impure")
        line = self.expect_kw("function").line
        name = self.ident()
        params = []
        if self.accept_op("("):
            params = self.interface_list()
            self.expect_op(")")
        self.expect_kw("return")
        ret = self.subtype_indication()
        if self.accept_op(";"):
            raise Unsupported("function declaration without body")
        self.expect_kw("is")
        decls = self.declarations()
        self.expect_kw("begin")
        body = self.seq_stmts(("end",))
        self.expect_kw("end")
        self.accept_kw("function")
        if self.t.kind == "id":
            end_name = self.ident()
            if end_name.lower() != name.lower():
                raise VhdlError("end-name", f"function {name} closed with name {end_name}", self.t.line)
        self.expect_op(";")
        return ("function", line, name, params, ret, decls, body)

    # -- concurrent statements ------------------------------------------------------------
    def concurrent_stmt(self):
        label = None
        line = self.t.line
        if self.t.kind == "id" and self.peek().kind == "op" and self.peek().val == ":":
            label = self.ident()
            self.expect_op(":")
        elif self.t.kind == "kw" and self.peek().kind == "op" and self.peek().val == ":" and not self.is_kw("process", "with", "assert"):
            raise VhdlError("reserved", f"reserved word '{self.t.val}' used as label", self.t.line)
        if self.is_kw("postponed"):
            raise Unsupported("postponed")
        if self.is_kw("process"):
            return self.process_stmt(label, line)
        if self.is_kw("entity"):
            self.adv()
            lib = self.ident()
            self.expect_op(".")
            ent = self.ident()
            arch = None
            if self.accept_op("("):
                arch = self.ident()
                self.expect_op(")")
            gmap = []
            pmap = []
            if self.accept_kw("generic"):
                self.expect_kw("map")
                self.expect_op("(")
                gmap = self.assoc_list()
                self.expect_op(")")
            if self.accept_kw("port"):
                self.expect_kw("map")
                self.expect_op("(")
                pmap = self.assoc_list()
                self.expect_op(")")
            self.expect_op(";")
            if label is None:
                raise VhdlSyntaxError("instantiation needs a label", line)
            return ("inst", line, label, lib, ent, arch, gmap, pmap)
        if self.is_kw("component"):
            raise Unsupported("component instantiation")
        if self.is_kw("with"):
            self.adv()
            sel = self.expr()
            self.expect_kw("select")
            target = self.name()
            self.expect_op("<=")
            alts = []
            while True:
                val = self.expr()
                self.expect_kw("when")
                choices = self.choices()
                alts.append((val, choices))
                if not self.accept_op(","):
                    break
            self.expect_op(";")
            return ("selassign", line, label, sel, target, alts)
        if self.is_kw("assert"):
            st = self.assert_stmt()
            return ("cassert", line, label, st)
        if self.is_kw("block", "for", "if", "case"):
            raise Unsupported(f"concurrent '{self.t.val}' statement")
        if label is not None and self.t.kind == "id" and self.peek().kind == "kw" and self.peek().val in ("port", "generic"):
            raise Unsupported("component instantiation")
        # concurrent (conditional) signal assignment
        target = self.name()
        self.expect_op("<=")
        waves = []
        while True:
            val = self.expr()
            if self.accept_kw("after"):
                raise Unsupported("after clause")
            if self.accept_kw("when"):
                cond = self.expr()
                waves.append((val, cond))
                if self.accept_kw("else"):
                    continue
                break
            waves.append((val, None))
            break
        self.expect_op(";")
        if len(waves) == 1 and waves[0][1] is None:
            return ("cassign", line, label, target, waves[0][0])
        return ("condassign", line, label, target, waves)

    def assoc_list(self):
        items = []
        while True:
            line = self.t.line
            # formal => actual   (formal is a name; positional association unsupported)
            save = self.i
            formal = None
            if self.t.kind == "id":
                try:
                    f = self.name()
                    if self.accept_op("=>"):
                        formal = f
                    else:
                        self.i = save
                except VhdlError:
                    self.i = save
            if self.accept_kw("open"):
                actual = None
            else:
                actual = self.expr()
            items.append(("assoc", line, formal, actual))
            if not self.accept_op(","):
                break
        return items

    def process_stmt(self, label, line):
        self.expect_kw("process")
        sens = None
        if self.accept_op("("):
            if self.accept_kw("all"):
                sens = "all"
            else:
                sens = [self.name()]
                while self.accept_op(","):
                    sens.append(self.name())
            self.expect_op(")")
        self.accept_kw("is")
        decls = self.declarations()
        self.expect_kw("begin")
        body = self.seq_stmts(("end",))
        self.expect_kw("end")
        self.expect_kw("process")
        if self.t.kind == "id":
            end_label = self.ident()
            if label is None or end_label.lower() != label.lower():
                raise VhdlError("end-name", f"process closed with label {end_label}", self.t.line)
        self.expect_op(";")
        return ("process", line, label, sens, decls, body)

    # -- sequential statements ------------------------------------------------------------
    def seq_stmts(self, stop_kws):
        stmts = []
        while not self.is_kw(*stop_kws):
            if self.t.kind == "eof":
                raise VhdlSyntaxError("unexpected end of file", self.t.line)
            stmts.append(self.seq_stmt())
        return stmts

    def seq_stmt(self):
        line = self.t.line
        if self.t.kind == "id" and self.peek().kind == "op" and self.peek().val == ":":
            self.ident()
            self.expect_op(":")
        if self.is_kw("if"):
            self.adv()
            branches = []
            cond = self.expr()
            self.expect_kw("then")
            body = self.seq_stmts(("elsif", "else", "end"))
            branches.append((cond, body))
            orelse = None
            while True:
                if self.accept_kw("elsif"):
                    cond = self.expr()
                    self.expect_kw("then")
                    body = self.seq_stmts(("elsif", "else", "end"))
                    branches.append((cond, body))
                elif self.accept_kw("else"):
                    orelse = self.seq_stmts(("end",))
                else:
                    break
            self.expect_kw("end")
            self.expect_kw("if")
            self.expect_op(";")
            return ("if", line, branches, orelse)
        if self.is_kw("case"):
            self.adv()
            sel = self.expr()
            self.expect_kw("is")
            alts = []
            while self.accept_kw("when"):
                ch = self.choices()
                self.expect_op("=>")
                body = self.seq_stmts(("when", "end"))
                alts.append((ch, body))
            self.expect_kw("end")
            self.expect_kw("case")
            self.expect_op(";")
            return ("case", line, sel, alts)
        if self.is_kw("null"):
            self.adv()
            self.expect_op(";")
            return ("null", line)
        if self.is_kw("assert"):
            return self.assert_stmt()
        if self.is_kw("report"):
            self.adv()
            msg = self.expr()
            sev = None
            if self.accept_kw("severity"):
                sev = self.ident()
            self.expect_op(";")
            return ("report", line, msg, sev)
        if self.is_kw("return"):
            self.adv()
            val = None
            if not self.is_op(";"):
                val = self.expr()
            self.expect_op(";")
            return ("return", line, val)
        if self.is_kw("for"):
            self.adv()
            var = self.ident()
            self.expect_kw("in")
            rng = self.range_()
            self.expect_kw("loop")
            body = self.seq_stmts(("end",))
            self.expect_kw("end")
            self.expect_kw("loop")
            self.expect_op(";")
            return ("for", line, var, rng, body)
        if self.is_kw("wait", "while", "loop", "next", "exit"):
            raise Unsupported(f"sequential '{self.t.val}' statement")
        target = self.name()
        if self.accept_op("<="):
            val = self.expr()
            if self.is_kw("after", "when"):
                raise Unsupported("after/when in sequential signal assignment")
            self.expect_op(";")
            return ("sassign", line, target, val)
        if self.accept_op(":="):
            val = self.expr()
            self.expect_op(";")
            return ("vassign", line, target, val)
        raise VhdlSyntaxError(f"expected assignment, found {self.t.val!r}", self.t.line)

    def assert_stmt(self):
        line = self.expect_kw("assert").line
        cond = self.expr()
        msg = None
        sev = None
        if self.accept_kw("report"):
            msg = self.expr()
        if self.accept_kw("severity"):
            sev = self.ident()
        self.expect_op(";")
        return ("assert", line, cond, msg, sev)

    def choices(self):
        ch = [self.choice()]
        while self.accept_op("|"):
            ch.append(self.choice())
        return ch

    def choice(self):
        if self.accept_kw("others"):
            return ("others",)
        e = self.simple_expr()
        if self.is_kw("to", "downto"):
            d = self.adv().val
            r = self.simple_expr()
            return ("range", e[1], e, d, r)
        return e

    # -- expressions ----------------------------------------------------------------------
    def expr(self):
        # VHDL-2008 condition operator is not emitted; logical level
        left = self.relation()
        if self.is_kw("and", "or", "xor", "nand", "nor", "xnor"):
            op = self.t.val
            while self.is_kw(op):
                line = self.adv().line
                right = self.relation()
                left = ("binop", line, op, left, right)
                if op in ("nand", "nor"):
                    break
            if self.is_kw("and", "or", "xor", "nand", "nor", "xnor"):
                raise VhdlSyntaxError(f"mixed logical operators need parentheses ('{op}' then '{self.t.val}')", self.t.line)
        return left

    def relation(self):
        left = self.shift_expr()
        if self.is_op("=", "/=", "<", "<=", ">", ">="):
            t = self.adv()
            right = self.shift_expr()
            left = ("binop", t.line, t.val, left, right)
            if self.is_op("=", "/=", "<", "<=", ">", ">="):
                raise VhdlSyntaxError("chained relational operators", self.t.line)
        return left

    def shift_expr(self):
        left = self.simple_expr()
        if self.is_kw("sll", "srl", "sla", "sra", "rol", "ror"):
            t = self.adv()
            right = self.simple_expr()
            left = ("binop", t.line, t.val, left, right)
        return left

    def simple_expr(self):
        sign = None
        if self.is_op("+", "-"):
            sign = self.adv()
        left = self.term()
        if sign is not None:
            left = ("unop", sign.line, sign.val, left)
        while self.is_op("+", "-", "&"):
            t = self.adv()
            right = self.term()
            left = ("binop", t.line, t.val, left, right)
        return left

    def term(self):
        left = self.factor()
        while self.is_op("*", "/") or self.is_kw("mod", "rem"):
            t = self.adv()
            right = self.factor()
            left = ("binop", t.line, t.val, left, right)
        return left

    def factor(self):
        if self.is_kw("abs", "not"):
            t = self.adv()
            return ("unop", t.line, t.val, self.primary())
        left = self.primary()
        if self.is_op("**"):
            t = self.adv()
            right = self.primary()
            left = ("binop", t.line, "**", left, right)
        return left

    def primary(self):
        t = self.t
        if t.kind == "num":
            self.adv()
            return ("int", t.line, t.val)
        if t.kind == "chr":
            self.adv()
            return ("chr", t.line, t.val)
        if t.kind == "str":
            self.adv()
            return ("str", t.line, t.val)
        if t.kind == "op" and t.val == "(":
            return self.paren_or_aggregate()
        if t.kind == "id":
            return self.name()
        if t.kind == "kw":
            if t.val in ("new", "null"):
                raise Unsupported(f"primary '{t.val}'")
            raise VhdlError("reserved", f"reserved word '{t.val}' used in an expression", t.line)
        raise VhdlSyntaxError(f"unexpected {t.val!r} in expression", t.line)

    def paren_or_aggregate(self):
        line = self.expect_op("(").line
        elems = []
        is_agg = False
        while True:
            if self.is_kw("others"):
                self.adv()
                self.expect_op("=>")
                val = self.expr()
                elems.append(([("others",)], val))
                is_agg = True
            else:
                e = self.expr()
                if self.is_kw("to", "downto"):
                    d = self.adv().val
                    r = self.simple_expr()
                    e = ("range", line, e, d, r)
                if self.is_op("|", "=>"):
                    ch = [e]
                    while self.accept_op("|"):
                        ch.append(self.choice())
                    self.expect_op("=>")
                    val = self.expr()
                    elems.append((ch, val))
                    is_agg = True
                else:
                    elems.append((None, e))
            if not self.accept_op(","):
                break
        self.expect_op(")")
        if not is_agg and len(elems) == 1:
            return ("paren", line, elems[0][1])
        return ("agg", line, elems)

    def name(self):
        line = self.t.line
        ident = self.ident()
        node = ("name", line, ident)
        while True:
            if self.is_op("("):
                self.adv()
                args = []
                while True:
                    a = self.expr()
                    if self.is_kw("to", "downto"):
                        d = self.adv().val
                        r = self.simple_expr()
                        a = ("range", line, a, d, r)
                    elif self.is_op("=>"):
                        raise Unsupported("named association in call")
                    args.append(a)
                    if not self.accept_op(","):
                        break
                self.expect_op(")")
                node = ("apply", line, node, args)
            elif self.is_op("'"):
                self.adv()
                if self.is_op("("):
                    inner = self.paren_or_aggregate()
                    node = ("qual", line, node, inner)
                else:
                    if self.t.kind == "kw" and self.t.val == "range":
                        attr = self.adv().val
                    else:
                        attr = self.ident()
                    node = ("attr", line, node, attr.lower())
            elif self.is_op("."):
                raise Unsupported("selected name")
            else:
                break
        return node


def parse(text):
    return Parser(text).design_file()
