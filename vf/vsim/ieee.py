"""std_logic_1164 / numeric_std semantics for VSIM.

Value representation: std_ulogic = 1-character str from 'UX01ZWLH-'; a vector is a str whose
character 0 is the LEFTMOST element (for ``n-1 downto 0`` that is the MSB).  numeric_std always
interprets the leftmost element as MSB, independent of declared direction.
boolean = bool, integer = int (range-checked to 32 bit at assignment/return points by callers).
"""
from __future__ import annotations

STD = "UX01ZWLH-"


class SimError(Exception):
    """Run-time error a VHDL simulator would report (bound/length/range failure)."""


class Stats:
    metavalue_warnings = 0
    truncation_warnings = 0


_RES = [
    # U    X    0    1    Z    W    L    H    -
    "UUUUUUUUU",
    "UXXXXXXXX",
    "UX0X0000X",
    "UXX11111X",
    "UX01ZWLHX",
    "UX01WWWWX",
    "UX01LWLWX",
    "UX01HWWHX",
    "UXXXXXXXX",
]
_AND = [
    "UU0UUU0UU",
    "UX0XXX0XX",
    "000000000",
    "UX01XX01X",
    "UX0XXX0XX",
    "UX0XXX0XX",
    "000000000",
    "UX01XX01X",
    "UX0XXX0XX",
]
_OR = [
    "UUU1UUU1U",
    "UXX1XXX1X",
    "UX01XX01X",
    "111111111",
    "UXX1XXX1X",
    "UXX1XXX1X",
    "UX01XX01X",
    "111111111",
    "UXX1XXX1X",
]
_XOR = [
    "UUUUUUUUU",
    "UXXXXXXXX",
    "UX01XX01X",
    "UX10XX10X",
    "UXXXXXXXX",
    "UXXXXXXXX",
    "UX01XX01X",
    "UX10XX10X",
    "UXXXXXXXX",
]
_NOT = "UX10XX10X"
_IDX = {c: i for i, c in enumerate(STD)}
TO_X01 = {"U": "X", "X": "X", "0": "0", "1": "1", "Z": "X", "W": "X", "L": "0", "H": "1", "-": "X"}


def _tab(tab):
    return {(a, b): tab[i][j] for i, a in enumerate(STD) for j, b in enumerate(STD)}


AND_T = _tab(_AND)
OR_T = _tab(_OR)
XOR_T = _tab(_XOR)
RES_T = _tab(_RES)
NOT_T = {c: _NOT[i] for i, c in enumerate(STD)}


def sl_and(a, b):
    return AND_T[a, b]


def sl_or(a, b):
    return OR_T[a, b]


def sl_xor(a, b):
    return XOR_T[a, b]


def sl_nand(a, b):
    return NOT_T[AND_T[a, b]]


def sl_nor(a, b):
    return NOT_T[OR_T[a, b]]


def sl_xnor(a, b):
    return NOT_T[XOR_T[a, b]]


def sl_not(a):
    return NOT_T[a]


def resolve(vals):
    r = vals[0]
    for v in vals[1:]:
        r = RES_T[r, v]
    return r


_CLEAN = set("01")


def is01(s):
    return not (set(s) - _CLEAN)


def _vec_logic(tab, fast):
    def f(a, b):
        n = len(a)
        if n != len(b):
            raise SimError(f"logical operator on vectors of different length ({n} vs {len(b)})")
        if n == 0:
            return ""
        try:
            return format(fast(int(a, 2), int(b, 2)) & ((1 << n) - 1), f"0{n}b")
        except ValueError:
            return "".join(tab[x, y] for x, y in zip(a, b))

    return f


vec_and = _vec_logic(AND_T, lambda x, y: x & y)
vec_or = _vec_logic(OR_T, lambda x, y: x | y)
vec_xor = _vec_logic(XOR_T, lambda x, y: x ^ y)
_vec_nand = _vec_logic({k: NOT_T[v] for k, v in AND_T.items()}, lambda x, y: ~(x & y))
_vec_nor = _vec_logic({k: NOT_T[v] for k, v in OR_T.items()}, lambda x, y: ~(x | y))
_vec_xnor = _vec_logic({k: NOT_T[v] for k, v in XOR_T.items()}, lambda x, y: ~(x ^ y))
vec_nand, vec_nor, vec_xnor = _vec_nand, _vec_nor, _vec_xnor


def vec_not(a):
    return "".join(NOT_T[c] for c in a)


# ---- numeric interpretation -------------------------------------------------------------------

def _x01(s):
    return "".join(TO_X01[c] for c in s)


def u2i(s):
    """unsigned vector -> int, or None when it contains a metavalue (after TO_01 semantics: L/H map)."""
    try:
        return int(s, 2)
    except ValueError:
        t = _x01(s)
        if "X" in t or not t:
            return None
        return int(t, 2)


def s2i(s):
    try:
        v = int(s, 2)
    except ValueError:
        t = _x01(s)
        if "X" in t or not t:
            return None
        v = int(t, 2)
        s = t
    if s[0] == "1":
        v -= 1 << len(s)
    return v


def i2v(v, n):
    """two's complement / modulo encoding of int v in n bits"""
    if n == 0:
        return ""
    return format(v & ((1 << n) - 1), f"0{n}b")


def _meta(n):
    Stats.metavalue_warnings += 1
    return "X" * n


def to_unsigned(v, n):
    if v < 0:
        raise SimError(f"to_unsigned: argument {v} is not natural")
    if n < 0:
        raise SimError("to_unsigned: negative size")
    if v >> n:
        Stats.truncation_warnings += 1
    return i2v(v, n)


def to_signed(v, n):
    if n < 0:
        raise SimError("to_signed: negative size")
    if n == 0:
        return ""
    if not (-(1 << (n - 1)) <= v < (1 << (n - 1))):
        Stats.truncation_warnings += 1
    return i2v(v, n)


def chk_int(v):
    if not (-2147483648 <= v <= 2147483647):
        raise SimError(f"integer overflow ({v})")
    return v


def chk_nat(v, what="natural"):
    if v < 0:
        raise SimError(f"{what} argument is negative ({v})")
    return v


def to_integer_u(s):
    v = u2i(s)
    if v is None:
        Stats.metavalue_warnings += 1
        return 0
    return chk_int(v)


def to_integer_s(s):
    v = s2i(s)
    if v is None:
        Stats.metavalue_warnings += 1
        return 0
    return chk_int(v)


def resize_u(s, n):
    chk_nat(n, "resize size")
    m = len(s)
    if n <= m:
        return s[m - n :]
    return "0" * (n - m) + s


def resize_s(s, n):
    chk_nat(n, "resize size")
    m = len(s)
    if n == 0:
        return ""
    if m == 0:
        return "0" * n
    if n >= m:
        return s[0] * (n - m) + s
    return s[0] + s[m - n + 1 :]


def shift_left(s, k):
    chk_nat(k, "shift count")
    n = len(s)
    if k >= n:
        return "0" * n
    return s[k:] + "0" * k


def shift_right_u(s, k):
    chk_nat(k, "shift count")
    n = len(s)
    if k >= n:
        return "0" * n
    return "0" * k + s[: n - k]


def shift_right_s(s, k):
    chk_nat(k, "shift count")
    n = len(s)
    if n == 0:
        return s
    if k >= n:
        return s[0] * n
    return s[0] * k + s[: n - k]


def rotate_left(s, k):
    chk_nat(k, "rotate count")
    n = len(s)
    if n == 0:
        return s
    k %= n
    return s[k:] + s[:k]


def rotate_right(s, k):
    chk_nat(k, "rotate count")
    n = len(s)
    if n == 0:
        return s
    k %= n
    return s[n - k :] + s[: n - k]


# arithmetic; kind 'u' or 's'; integer operands are passed as python ints

def _val(kind, x):
    return u2i(x) if kind == "u" else s2i(x)


def _int_as_vec_ok(kind, v):
    if kind == "u" and v < 0:
        raise SimError(f"negative integer {v} combined with unsigned operand (NATURAL expected)")


def arith(op, kind, a, b):
    """numeric_std binary arithmetic.  a, b: str vectors or ints (at most one int)."""
    ia = isinstance(a, int)
    ib = isinstance(b, int)
    if ia:
        _int_as_vec_ok(kind, a)
        lb = len(b)
        if lb == 0:
            return ""
        vb = _val(kind, b)
        la = lb
        va = a
    elif ib:
        _int_as_vec_ok(kind, b)
        la = len(a)
        if la == 0:
            return ""
        va = _val(kind, a)
        lb = la
        vb = b
    else:
        la, lb = len(a), len(b)
        if la == 0 or lb == 0:
            return ""
        va, vb = _val(kind, a), _val(kind, b)
    if op in ("+", "-"):
        n = max(la, lb)
        if va is None or vb is None:
            return _meta(n)
        if ia or ib:
            # integer is converted with TO_UNSIGNED/TO_SIGNED(.., n): truncation only warns
            pass
        return i2v(va + vb if op == "+" else va - vb, n)
    if op == "*":
        n = la + lb
        if va is None or vb is None:
            return _meta(n)
        if ia:
            va = _wrap(kind, va, lb)
        if ib:
            vb = _wrap(kind, vb, la)
        return i2v(va * vb, n)
    # division family
    if op == "/":
        n = la if not ia else lb
    else:  # rem, mod
        n = lb if not ib else la
    if va is None or vb is None:
        return _meta(n)
    if vb == 0:
        raise SimError(f"numeric_std '{op}': division by zero")
    if op == "/":
        q = abs(va) // abs(vb)
        if (va < 0) != (vb < 0):
            q = -q
        r = q
    elif op == "rem":
        r = abs(va) % abs(vb)
        if va < 0:
            r = -r
    else:
        r = va % vb  # python mod has the sign of the divisor, as VHDL mod
    return i2v(r, n)


def _wrap(kind, v, n):
    v &= (1 << n) - 1
    if kind == "s" and n and (v >> (n - 1)):
        v -= 1 << n
    return v


def neg_s(a):
    v = s2i(a)
    if v is None:
        return _meta(len(a)) if a else ""
    return i2v(-v, len(a))


def abs_s(a):
    v = s2i(a)
    if v is None:
        return _meta(len(a)) if a else ""
    return i2v(abs(v), len(a))


def cmp(op, kind, a, b):
    """numeric_std relational operator; metavalue -> FALSE (TRUE for /=) with a warning"""
    ia = isinstance(a, int)
    ib = isinstance(b, int)
    if (not ia and len(a) == 0) or (not ib and len(b) == 0):
        Stats.metavalue_warnings += 1
        return op == "/="
    va = a if ia else _val(kind, a)
    vb = b if ib else _val(kind, b)
    if va is None or vb is None:
        Stats.metavalue_warnings += 1
        return op == "/="
    if op == "=":
        return va == vb
    if op == "/=":
        return va != vb
    if op == "<":
        return va < vb
    if op == "<=":
        return va <= vb
    if op == ">":
        return va > vb
    return va >= vb


def lex_cmp(op, a, b):
    """predefined ordering of one-dimensional arrays of std_ulogic (position order in the enum)"""
    ka = [_IDX[c] for c in a]
    kb = [_IDX[c] for c in b]
    if op == "<":
        return ka < kb
    if op == "<=":
        return ka <= kb
    if op == ">":
        return ka > kb
    return ka >= kb


def sl_ord(op, a, b):
    return lex_cmp(op, a, b)


def rising(old, new):
    return TO_X01[new] == "1" and TO_X01[old] == "0"


def falling(old, new):
    return TO_X01[new] == "0" and TO_X01[old] == "1"


def int_div(a, b):
    if b == 0:
        raise SimError("integer division by zero")
    q = abs(a) // abs(b)
    return chk_int(-q if (a < 0) != (b < 0) else q)


def int_rem(a, b):
    if b == 0:
        raise SimError("integer rem by zero")
    r = abs(a) % abs(b)
    return -r if a < 0 else r


def int_mod(a, b):
    if b == 0:
        raise SimError("integer mod by zero")
    return a % b


def int_pow(a, b):
    if b < 0:
        raise SimError("negative exponent")
    return chk_int(a**b)


def selftest(maxw=4):
    """exhaustive comparison with straightforward integer definitions for widths <= maxw"""
    import itertools

    n_checks = 0
    for la in range(1, maxw + 1):
        for lb in range(1, maxw + 1):
            for x in range(1 << la):
                for y in range(1 << lb):
                    a, b = i2v(x, la), i2v(y, lb)
                    sx = x - (1 << la) if x >> (la - 1) else x
                    sy = y - (1 << lb) if y >> (lb - 1) else y
                    n = max(la, lb)
                    assert arith("+", "u", a, b) == i2v(x + y, n)
                    assert arith("-", "u", a, b) == i2v(x - y, n)
                    assert arith("+", "s", a, b) == i2v(sx + sy, n)
                    assert arith("-", "s", a, b) == i2v(sx - sy, n)
                    assert arith("*", "u", a, b) == i2v(x * y, la + lb)
                    assert arith("*", "s", a, b) == i2v(sx * sy, la + lb)
                    if y:
                        assert arith("/", "u", a, b) == i2v(x // y, la)
                        assert arith("rem", "u", a, b) == i2v(x % y, lb)
                        assert arith("mod", "u", a, b) == i2v(x % y, lb)
                    if sy:
                        import math

                        q = int(math.trunc(sx / sy))
                        assert arith("/", "s", a, b) == i2v(q, la)
                        assert arith("rem", "s", a, b) == i2v(sx - q * sy, lb)
                        assert arith("mod", "s", a, b) == i2v(sx - math.floor(sx / sy) * sy, lb)
                    for op, f in (("=", lambda p, q: p == q), ("<", lambda p, q: p < q), (">=", lambda p, q: p >= q)):
                        assert cmp(op, "u", a, b) == f(x, y)
                        assert cmp(op, "s", a, b) == f(sx, sy)
                    n_checks += 1
            for x in range(1 << la):
                a = i2v(x, la)
                sx = x - (1 << la) if x >> (la - 1) else x
                for k in range(0, la + 2):
                    assert shift_left(a, k) == i2v(x << k, la)
                    assert shift_right_u(a, k) == i2v(x >> k, la)
                    assert shift_right_s(a, k) == i2v(sx >> k, la)
                for n in range(1, maxw + 3):
                    assert resize_u(a, n) == i2v(x, n)
                    if n >= la:
                        assert s2i(resize_s(a, n)) == sx
                    else:
                        r = resize_s(a, n)
                        assert r[0] == a[0] and r[1:] == a[la - n + 1 :]
                assert to_integer_u(a) == x and to_integer_s(a) == sx
    # logic tables: commutativity and agreement on 0/1
    for a, b in itertools.product(STD, STD):
        assert AND_T[a, b] == AND_T[b, a] and OR_T[a, b] == OR_T[b, a] and XOR_T[a, b] == XOR_T[b, a]
        assert RES_T[a, b] == RES_T[b, a]
    for a, b in itertools.product("01", "01"):
        assert AND_T[a, b] == str(int(a) & int(b)) and OR_T[a, b] == str(int(a) | int(b)) and XOR_T[a, b] == str(int(a) ^ int(b))
    assert vec_and("01U1", "0111") == "01U1" and vec_or("0U", "10") == "1U" and arith("+", "u", "0X", "01") == "XX"
    return n_checks


if __name__ == "__main__":
    print("ieee selftest ok:", selftest())
