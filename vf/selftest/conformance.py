"""Conformance corpus for VSIM: run the upstream CoHDL testbenches (written against ghdl+cocotb)
unmodified on VSIM through the cocotb shim.  Used to establish trust in VSIM, and as a library
(``load_upstream``) by workloads that reuse upstream designs.

usage: python -m vf.selftest.conformance [--jobs N] [--filter substr] [--list]
"""
from __future__ import annotations

import contextlib
import importlib
import io
import json
import os
import random
import sys
import time
import traceback
import unittest
import warnings

HERE = os.path.dirname(os.path.abspath(__file__))
VERIF = os.path.dirname(os.path.dirname(HERE))
SHIM = os.path.join(VERIF, "vf", "tb", "cocotb_shim")
REPO = os.environ.get("VERIF_REPO", "/repo")

# upstream tests that cannot run here, with the reason (kept explicit)
EXCLUDED = {
    "tests.reference_builds.std.fixed.test_sfixed": "needs pre-generated VHDL files on disk (no_build=True) and VHDL-2008 fixed_pkg",
    "tests.reference_builds.std.fixed.test_ufixed": "needs pre-generated VHDL files on disk (no_build=True) and VHDL-2008 fixed_pkg",
    "tests.reference_builds.std.spi.": "needs cocotbext.spi (SPI bus model), not provided",
}


def setup_paths():
    for p in (VERIF, SHIM, os.path.join(REPO, "tests"), REPO):
        if p not in sys.path:
            sys.path.insert(0, p)


class Result:
    def __init__(self, name):
        self.name = name
        self.status = "ok"
        self.detail = ""
        self.tests = 0
        self.deltas = 0
        self.wall = 0.0


def run_entity_tests(entity, module_name, order_factory=None, seed=1, max_time=None, result=None, temp_sidecar=True):
    """compile entity with the real CoHDL, elaborate in VSIM, run every @cocotb.test of module"""
    from cohdl import std
    from vf.vsim import elab, kernel
    from vf.tb import shim_runtime as rt

    buf = io.StringIO()
    with contextlib.redirect_stdout(buf):
        text = std.VhdlCompiler.to_string(entity)
    design = elab.elaborate_text(text)
    mod = sys.modules[module_name]
    tests = [getattr(mod, n) for n in dir(mod) if getattr(getattr(mod, n), "_is_cocotb_test", False)]
    tests.sort(key=lambda f: f.__code__.co_firstlineno)
    for tf in tests:
        random.seed(seed)
        order = order_factory() if order_factory else None
        sim = kernel.Sim(design, order=order)
        sched = rt.Scheduler(sim, design, max_time=max_time)
        dut = rt.Dut(sched, design)
        rt._current = sched
        try:
            sim.initialise()
            with contextlib.redirect_stdout(buf):
                sched.run(tf(dut))
        finally:
            rt._current = None
        if result is not None:
            result.tests += 1
            result.deltas += sim.delta_count
        if sim.driver_conflicts:
            raise AssertionError(f"driver conflict in {entity.__name__}: {sim.driver_conflicts[:3]}")
    return design


def discover():
    root = os.path.join(REPO, "tests", "reference_builds")
    mods = []
    for dp, dn, fn in os.walk(root):
        dn.sort()
        for f in sorted(fn):
            if f.startswith("test_") and f.endswith(".py"):
                mods.append(os.path.relpath(os.path.join(dp, f), REPO)[:-3].replace("/", "."))
    mods.sort()
    return mods


def run_module(modname, seed=1, order_seed=None):
    """returns list of Result, one per unittest method"""
    setup_paths()
    warnings.simplefilter("ignore")
    import cohdl_testutil
    from cohdl_testutil import cocotb_util
    from vf.core import rng as vrng

    results = []
    for prefix, why in EXCLUDED.items():
        if modname.startswith(prefix):
            r = Result(modname)
            r.status = "excluded"
            r.detail = why
            return [r]
    current = {}

    def order_factory():
        if order_seed is None:
            return None
        st = vrng.Stream(order_seed, "order")
        return st.permute

    def fake_run(entity, file, module, *, no_build=False, **kw):
        if no_build:
            raise unittest.SkipTest("no_build test needs files on disk")
        run_entity_tests(entity, str(module), order_factory=order_factory, seed=seed, result=current["r"])

    cocotb_util.run_cocotb_tests = fake_run
    cohdl_testutil.run_cocotb_tests = fake_run
    try:
        with contextlib.redirect_stdout(io.StringIO()):
            mod = importlib.import_module(modname)
    except BaseException as e:
        r = Result(modname)
        r.status = "import-error"
        r.detail = "".join(traceback.format_exception_only(type(e), e))[-400:]
        return [r]
    for name in sorted(dir(mod)):
        obj = getattr(mod, name)
        if isinstance(obj, type) and issubclass(obj, unittest.TestCase) and obj.__module__ == mod.__name__:
            for tn in unittest.TestLoader().getTestCaseNames(obj):
                r = Result(f"{modname}::{tn}")
                current["r"] = r
                t0 = time.time()
                try:
                    with contextlib.redirect_stdout(io.StringIO()):
                        getattr(obj(tn), tn)()
                except unittest.SkipTest as e:
                    r.status = "excluded"
                    r.detail = str(e)
                except BaseException as e:
                    r.status = "fail"
                    tb = traceback.format_exc(limit=-6)
                    r.detail = tb[-1500:]
                r.wall = time.time() - t0
                results.append(r)
    return results


def _worker(args):
    modname, seed, order_seed = args
    import faulthandler

    faulthandler.dump_traceback_later(600, exit=True)
    try:
        rs = run_module(modname, seed, order_seed)
    finally:
        faulthandler.cancel_dump_traceback_later()
    return [(r.name, r.status, r.detail, r.tests, r.deltas, r.wall) for r in rs]


def run_all(jobs=16, filt=None, seed=1, order_seed=None):
    from concurrent.futures import ProcessPoolExecutor
    import multiprocessing as mp

    setup_paths()
    mods = [m for m in discover() if not filt or filt in m]
    out = []
    with ProcessPoolExecutor(max_workers=jobs, mp_context=mp.get_context("fork")) as ex:
        for rs in ex.map(_worker, [(m, seed, order_seed) for m in mods]):
            out.extend(rs)
    return out


def main(argv):
    import argparse

    ap = argparse.ArgumentParser()
    ap.add_argument("--jobs", type=int, default=16)
    ap.add_argument("--filter", default=None)
    ap.add_argument("--seed", type=int, default=1)
    ap.add_argument("--order-seed", type=int, default=None)
    ap.add_argument("--verbose", action="store_true")
    ap.add_argument("--json", default=None)
    a = ap.parse_args(argv)
    t0 = time.time()
    res = run_all(a.jobs, a.filter, a.seed, a.order_seed)
    counts = {}
    for name, status, detail, tests, deltas, wall in res:
        counts[status] = counts.get(status, 0) + 1
        if status not in ("ok",) or a.verbose:
            print(f"[{status}] {name} ({tests} tb, {deltas} deltas, {wall:.1f}s)")
            if status != "ok":
                print("    " + detail.replace("\n", "\n    "))
    print("conformance:", counts, f"wall {time.time()-t0:.1f}s")
    if a.json:
        json.dump(res, open(a.json, "w"), indent=1)
    return 0 if counts.get("fail", 0) == 0 and counts.get("import-error", 0) == 0 else 1


if __name__ == "__main__":
    sys.exit(main(sys.argv[1:]))
