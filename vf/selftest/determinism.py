"""Determinism self-test of the machinery: one integer decides everything.

For every claimed property a batch of runs is executed three times in fresh interpreters -- 16 workers / PYTHONHASHSEED=0,
1 worker / PYTHONHASHSEED=0, 5 workers / another PYTHONHASHSEED -- and the deep digests (every number a run reports: delta
cycles, process activations, order permutations taken, counters, outcomes) must be identical.  A second VERIF_SEED must give a
different digest (the seed really is an input).

usage: ./check selftest-determinism [--props C01,C03] [--runs 200]
"""
from __future__ import annotations

import argparse
import os
import re
import subprocess
import sys

VERIF = os.path.dirname(os.path.dirname(os.path.dirname(os.path.abspath(__file__))))
PROPS = ["C01", "C02", "C03", "C04", "C05", "C06", "C07", "C08", "C09", "C11", "C12", "C13", "C14", "C15", "C16", "C20"]
SLOW = {"C11": 10, "C13": 24}


def run(prop, runs, jobs, hashseed, seed=1):
    env = dict(os.environ)
    env.update(PYTHONHASHSEED=str(hashseed), VERIF_NO_EVIDENCE="1", PYTHONDONTWRITEBYTECODE="1")
    p = subprocess.run([sys.executable, "-m", "vf.cli", prop, "--tier", "quick", "--runs", str(runs), "--jobs", str(jobs), "--seed", str(seed)], cwd=VERIF, env=env, capture_output=True, text=True)
    m = re.search(r"deep=([0-9a-f]+)", p.stdout)
    return (m.group(1) if m else None), p.returncode, p.stdout.strip().splitlines()[-1:] + p.stderr.strip().splitlines()[-2:]


def main(argv=None):
    ap = argparse.ArgumentParser()
    ap.add_argument("--props", default=",".join(PROPS))
    ap.add_argument("--runs", type=int, default=160)
    a = ap.parse_args(argv)
    bad = 0
    for prop in a.props.split(","):
        n = SLOW.get(prop, a.runs)
        d1, rc1, t1 = run(prop, n, 16, 0)
        d2, rc2, t2 = run(prop, n, 1, 0)
        d3, rc3, t3 = run(prop, n, 5, 2718281)
        d4, rc4, t4 = run(prop, n, 16, 0, seed=2)
        same = d1 is not None and d1 == d2 == d3
        # enumerated case workloads report no seed-dependent numbers (the seed only picks stimulus order / process order there)
        seed_matters = d4 is not None and (d4 != d1 or prop in ("C05", "C07", "C08"))
        ok = same and seed_matters and rc1 == rc2 == rc3
        print(f"{prop}: runs={n} digests {d1} {d2} {d3} | other seed {d4} -> {'deterministic' if ok else 'NOT DETERMINISTIC'}")
        if not ok:
            bad += 1
            for t in (t1, t2, t3):
                print("   ", t)
    print("determinism:", "ok" if not bad else f"{bad} properties differ")
    return 0 if not bad else 2


if __name__ == "__main__":
    sys.exit(main())
