"""setup-time smoke test: ieee tables, one real compile + simulate, determinism of one run"""
from __future__ import annotations

import sys


def main():
    from vf.vsim import ieee

    n = ieee.selftest(3)
    from vf.props import c01

    r1 = c01.run_one(1, 3, "quick")
    r2 = c01.run_one(1, 3, "quick")
    if r1 != r2:
        print("HARNESS-ERROR: smoke: run is not deterministic", file=sys.stderr)
        return 2
    print(f"smoke ok: ieee checks={n}, C01 run 3 -> {r1['status']}")
    return 0


if __name__ == "__main__":
    sys.exit(main())
