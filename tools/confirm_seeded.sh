#!/bin/bash
# usage: tools/confirm_seeded.sh <srcdir with patch.diff demo.py> <name>  -> prints one JSON line
src="$1"; name="$2"
wt=/tmp/confirm-$name
git -C /repo worktree remove --force $wt >/dev/null 2>&1
git -C /repo worktree add --detach $wt ${BASE:-8167330} >/dev/null 2>&1 || { echo "{\"name\":\"$name\",\"error\":\"worktree\"}"; exit 1; }
cd $wt
PYTHONPATH=$wt timeout 600 /venv/bin/python $src/demo.py >/tmp/confirm-$name.clean.log 2>&1; clean=$?
git apply $src/patch.diff; applied=$?
tests=$(timeout 900 /venv/bin/python -m pytest -q -p no:cacheprovider --timeout=900 --continue-on-collection-errors 2>&1 | tail -1)
PYTHONPATH=$wt timeout 600 /venv/bin/python $src/demo.py >/tmp/confirm-$name.mut.log 2>&1; mut=$?
cd /
git -C /repo worktree remove --force $wt
echo "{\"name\":\"$name\",\"base_commit\":\"${BASE:-8167330}\",\"patch_applies\":$applied,\"demo_exit_clean\":$clean,\"demo_exit_mutant\":$mut,\"tests\":\"$tests\"}"
