#!/bin/bash
# usage: tools/try_mutant.sh <patch.diff> <PROP> [extra check args]   -- applies the patch to /repo, runs the check, reverts
patch="$1"; shift
prop="$1"; shift
cd /repo || exit 3
if ! git diff --quiet; then echo "REPO DIRTY, refusing"; exit 3; fi
git apply "$patch" || { echo "patch does not apply"; exit 3; }
cd /verif
VERIF_NO_EVIDENCE=1 ./check "$prop" "$@" 2>&1 | grep -v "^  class=" | tail -6
rc=${PIPESTATUS[0]}
git -C /repo checkout -- .
echo "mutant run exit=$rc"
