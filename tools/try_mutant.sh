#!/bin/bash
# usage: tools/try_mutant.sh <patch.diff> <PROP> [extra check args]
# Runs the check of <PROP> against a scratch copy of /repo's HEAD with the patch applied (PYTHONPATH puts the copy in
# front of the editable install); /repo itself, the evidence files and /verif/replays are not touched, so this can run
# next to a soak of the unchanged tree.  The scratch copy is removed afterwards.
patch="$(readlink -f "$1")"; shift
prop="$1"; shift
wt=/tmp/mut-$$
git -C /repo worktree add -q --detach "$wt" "${MUT_BASE:-HEAD}" || exit 3
trap 'git -C /repo worktree remove --force "$wt"; rm -rf "$wt.replays"' EXIT
git -C "$wt" apply "$patch" || { echo "patch does not apply"; exit 3; }
cd /verif
where=$(PYTHONPATH="$wt" /venv/bin/python -c "import cohdl; print(cohdl.__file__)")
case "$where" in "$wt"/*) ;; *) echo "cohdl not imported from scratch copy: $where"; exit 3;; esac
PYTHONPATH="$wt" VERIF_NO_EVIDENCE=1 VERIF_REPLAY_DIR="$wt.replays" ./check "$prop" "$@" 2>&1 | grep -v "^  class=\|^KNOWN" | tail -6
rc=${PIPESTATUS[0]}
echo "mutant run exit=$rc"
