#!/venv/bin/python
"""Apply every seeded change under /verif/seeded/<name>/patch.diff to /repo (one at a time, always
reverted), run the quick check(s) of the property it breaks and record whether it was caught.
usage: tools/run_seeded.py [name ...]   (default: all)      writes seeded/<name>/detection.json
"""
import json
import os
import subprocess
import sys
import time

VERIF = os.path.dirname(os.path.dirname(os.path.abspath(__file__)))


def sh(cmd, **kw):
    return subprocess.run(cmd, shell=True, capture_output=True, text=True, **kw)


def main():
    """every change is applied to a scratch worktree of /repo's HEAD (put in front of the editable install with
    PYTHONPATH); /repo, the evidence files and /verif/replays are not touched"""
    names = sys.argv[1:] or sorted(os.listdir(os.path.join(VERIF, "seeded")))
    summary = []
    for name in names:
        d = os.path.join(VERIF, "seeded", name)
        meta = json.load(open(os.path.join(d, "meta.json")))
        checks = meta.get("checks") or [meta["property"]]
        # patch.diff is against the pinned commit; when a later "fix:" commit touched the same lines a copy rebased
        # on the current /repo HEAD (same change) is kept next to it
        patch = f"{d}/patch.rebased.diff" if os.path.exists(f"{d}/patch.rebased.diff") else f"{d}/patch.diff"
        wt = f"/tmp/mut-{os.getpid()}-{name}"
        if sh(f"git -C /repo worktree add -q --detach {wt} HEAD").returncode != 0:
            print(name, "CANNOT CREATE SCRATCH COPY")
            return 3
        try:
            if sh(f"git -C {wt} apply {patch}").returncode != 0:
                print(name, "PATCH DOES NOT APPLY")
                summary.append((name, "patch-does-not-apply"))
                continue
            env = dict(os.environ, PYTHONPATH=wt, VERIF_NO_EVIDENCE="1", VERIF_REPLAY_DIR=wt + ".replays")
            where = sh("/venv/bin/python -c 'import cohdl; print(cohdl.__file__)'", env=env).stdout.strip()
            assert where.startswith(wt), where
            det = {"name": name, "repo_head": sh("git -C /repo log --format=%h -1").stdout.strip(), "results": []}
            for c in checks:
                t = time.time()
                r = sh(f"./check {c} --tier quick", cwd=VERIF, env=env)
                viol = [l for l in r.stdout.splitlines() if l.startswith("VIOLATION")]
                det["results"].append({"check": c, "exit": r.returncode, "violation_lines": len(viol), "wall_s": round(time.time() - t, 1), "tail": r.stdout.strip().splitlines()[-1:]})
            det["caught"] = any(x["exit"] == 1 and x["violation_lines"] > 0 for x in det["results"])
            if meta.get("neutralised_by_fix") and not det["caught"]:
                # a later "fix:" commit made this change harmless (the property holds with it applied): its own demo must agree
                demo = sh(f"/venv/bin/python {d}/demo.py", env=env)
                det["neutralised_by_fix"] = meta["neutralised_by_fix"]
                det["demo_exit_with_change"] = demo.returncode
                json.dump(det, open(os.path.join(d, "detection.json"), "w"), indent=1)
                print(name, "NEUTRALISED (demo exit %d)" % demo.returncode if demo.returncode == 0 else "MISSED (demo still fails)", flush=True)
                summary.append((name, demo.returncode == 0))
                continue
            json.dump(det, open(os.path.join(d, "detection.json"), "w"), indent=1)
            print(name, "CAUGHT" if det["caught"] else "MISSED", [(x["check"], x["exit"]) for x in det["results"]], flush=True)
            summary.append((name, det["caught"]))
        finally:
            sh(f"git -C /repo worktree remove --force {wt}; rm -rf {wt}.replays")
    return 0


if __name__ == "__main__":
    sys.exit(main())
