#!/venv/bin/python
"""Writes the prompts given to the independent sub-agents that produce seeded changes (one per property and round).
The agents get ONLY the property text, a scratch worktree and (from the second round on) a one-line description of
earlier seeded changes to avoid duplicates -- nothing from the checks.
usage: tools/make_prompts.py <round-suffix> <outdir>        e.g.  tools/make_prompts.py b /tmp/prompts
"""
import json
import os
import sys

VERIF = os.path.dirname(os.path.dirname(os.path.abspath(__file__)))

T = """You are helping to evaluate a verification effort for the open-source project alexander-forster/cohdl (CoHDL: a Python-embedded HDL that compiles a Python subset, including async coroutines turned into state machines, through its own IR into synthesizable VHDL).

You have your own scratch git worktree of the repository at {wt} (work ONLY there; never touch /repo or /verif, do not read anything under /verif). Python is /venv/bin/python (3.12); to run code against your worktree use: cd {wt} && PYTHONPATH={wt} /venv/bin/python ...  (check that cohdl.__file__ points into your worktree). There is no VHDL simulator (no ghdl/cocotb) and no network. The existing test-suite is run with:
  cd {wt} && /venv/bin/python -m pytest -ra -q -p no:cacheprovider --timeout=900 --continue-on-collection-errors
On the unmodified tree exactly 66 tests pass and 201 fail (they need ghdl/cocotb); record the passing set by running it once before you change anything. (~15 s per run.)

Here is a semantic property the project is supposed to satisfy:

--- PROPERTY {id}: {title} ---
{statement}
---

YOUR TASK: produce ONE realistic change to the cohdl source code (in {wt}/cohdl/..., the kind of mistake a maintainer could plausibly make in a refactoring, optimisation or feature commit: an off-by-one, a dropped restore of state, a wrong set operation, a swapped operand, a missing case, a cache keyed too coarsely, a condition that is right except in a corner...) that BREAKS this property while the package still imports, and the SAME 66 tests still pass. The change should need something specific to manifest - a particular interleaving/timing, a fault (e.g. reset) at a particular point, a multi-step sequence of operations, an unusual input/configuration, or two cooperating code sites that each look fine alone - NOT something that ordinary use (any simple design) would expose at once. Keep it small (typically 1-15 changed lines). Do not change tests. Do not add new files to cohdl.

Earlier, independent attempts already produced the following change(s) for this property; yours must be in a DIFFERENT part of the mechanism and need a DIFFERENT trigger:
{avoid}

Also write a demonstration: a self-contained Python script demo.py that exits 0 on the unmodified tree and exits non-zero (with a short explanatory message) with your change applied. Since no VHDL simulator exists, the demo may compile a small cohdl design with std.VhdlCompiler.to_string(Entity) and inspect / interpret the emitted VHDL text (or compare against the text recorded from the unmodified tree, embedded in the script), or exercise Python-level behaviour - whatever shows the property is really broken (explain in notes why the changed VHDL/behaviour violates the property, e.g. which clock/step now differs). Look at {wt}/tests/reference_builds for how designs are written.

Steps:
1. Read the relevant code in {wt}/cohdl to understand the mechanism behind the property.
2. Run the test-suite once on the unmodified tree and record the passing set.
3. Make the change; re-run the test-suite; confirm the same 66 tests pass.
4. Write demo.py; confirm: with change -> non-zero exit; after reverting your change with "git -C {wt} diff > /tmp/p_{id}.diff; git -C {wt} apply -R /tmp/p_{id}.diff" -> exit 0; then re-apply it with "git -C {wt} apply /tmp/p_{id}.diff" (do NOT use git stash: the stash is shared between all worktrees of the repository and other agents work in parallel).
5. Write these files into {out}/ :
   - patch.diff  (output of "git -C {wt} diff"; must apply to the worktree's original commit with git apply)
   - demo.py     (run as: PYTHONPATH=<tree> /venv/bin/python demo.py)
   - notes.md    (<= 25 lines: what the change is, why it breaks the property, what exactly is needed for it to manifest, what you ran and observed)
Leave the worktree with the change applied. Your final answer to me should be at most 10 lines: a one-sentence description of the change, what is needed to trigger it, and confirmation of test/demo results.
"""


def main():
    suffix, outdir = sys.argv[1], sys.argv[2]
    props = {json.loads(l)["id"]: json.loads(l) for l in open(os.path.join(VERIF, "properties.jsonl"))}
    na = {x["property_id"] for x in json.load(open(os.path.join(VERIF, "MANIFEST.json")))["not_applicable"]}
    avoid = {}
    for d in sorted(os.listdir(os.path.join(VERIF, "seeded"))):
        m = json.load(open(os.path.join(VERIF, "seeded", d, "meta.json")))
        avoid.setdefault(m["property"], []).append(m["what"])
    os.makedirs(outdir, exist_ok=True)
    for pid, p in props.items():
        if pid in na:
            continue
        av = "\n".join(" - " + a for a in avoid.get(pid, ["(none)"]))
        text = T.format(id=pid, title=p["title"], statement=p["statement"], wt=f"/tmp/wt/{pid}{suffix}", out=f"/tmp/wt-out/{pid}{suffix}", avoid=av)
        open(os.path.join(outdir, f"{pid}{suffix}.txt"), "w").write(text)
    print("written", len(props) - len(na))


if __name__ == "__main__":
    main()
