"""regenerates MANIFEST.json from the table below (kept in one place so it stays valid)"""
import json, os

HERE = os.path.dirname(os.path.abspath(__file__))
BASE = "cd /repo && /venv/bin/python -m pytest -ra -q -p no:cacheprovider --timeout=900 --continue-on-collection-errors"

CHECKS = {
    "C01": dict(
        level="exploration",
        text="Seeded deterministic simulation: generated coroutine bodies are compiled by the real CoHDL and the emitted VHDL is executed in VSIM under seeded process order, input-change offsets, stimulus (biased to the instants conditions become true) and step_cond stalls, with the read-before-write (poison) monitor on; every output is compared every clock with a generator-based reference. Sampling, not proof; sizes bounded.",
        note="Trusted: VSIM (own simulator, conformance-checked against 244 upstream cocotb testbenches), the reference interpreter (written from the statement, calibrated on open points), program size <= 16 statements/depth 4, runs <= 300 clocks.",
        technique="deterministic simulation of emitted VHDL (seeded scheduler, stimulus, stall faults) vs executable reference model",
        ref="6/C01",
    ),
    "C04": dict(
        level="fault_enumeration",
        text="Reset as the injected crash/restart fault: for every generated coroutine design (4 reset kinds, objects with default / without default / noreset, on_reset actions) a fault-free run is recorded and the reset is then injected at EVERY clock position of that run (seeded duration; async resets also between edges and as pulses covering no edge; double resets), followed by fresh inputs. Checked per clock and after every reset change against the reference with the reset rule, plus a model-free metamorphic check: trace after release == trace of a power-up run. Enumeration is complete along each sampled run; runs and designs are sampled. Targets are also written through slices / bits, live in records created with the noreset wrapper, are tapped by an inout port of a sub-entity, and the context may be derived with or_reset / and_reset from one that already has a reset (two reset pins, per-fault choice of the asserted sources). A fifth of the programs without on_reset derive their context with with_params(reset=...) from a base context that has another reset (second pin) or none: only the replacement resets.",
        note="Trusted: VSIM, the coroutine reference and its reset rule; reset never changes at the active edge instant; recorded runs <= 110 clocks.",
        technique="deterministic simulation with reset-fault enumeration at every clock position of sampled runs; reference model + power-up equivalence",
        ref="6/C04",
    ),
    "C11": dict(
        level="fault_enumeration",
        engine="session",
        text="The compiler session is the simulated system: each run executes one history of compilations in a fork of a pristine interpreter started under a chosen PYTHONHASHSEED. The injected fault is the rejected compilation (a real user error planted at marked sites of valid designs so that the exception unwinds from every pipeline stage). For EVERY planted rejection the history [reject, then every valid and context-invalid design twice in seeded order] is run (thorough: also every adjacent (rejection, design) pair and 8 orders per rejection), plus sampled histories of 12-40 operations and goldens across 8 (thorough 32) hash seeds. Oracle: every compile in a history has the outcome (bytes or rejection) of the same source compiled alone in a fresh fork. Enumeration is over the catalogue; the catalogue itself is finite and hand-written. Group V runs every ordered pair of valid designs adjacent once without any rejection (seeded Euler circuit cut into histories of 64 compilations): a successful compilation is history too.",
        note="Trusted: fork() isolation of the pristine interpreter, the design pool / planted-error catalogue (vf/gen/pool.py). Exceptions no design can provoke are out of scope. fork does not scale across processes in this VM, hence long histories rather than many.",
        technique="deterministic simulation of compile histories with rejected-compilation faults in forked pristine interpreters per hash seed; fresh-interpreter oracle",
        ref="6/C11",
    ),
    "C13": dict(
        level="exploration",
        engine="session",
        text="History exploration without a clock: each run forks a pristine interpreter (so first use really is first; flavours with and without cohdl.std imported; 4 hash seeds) and executes a seeded history of type requests in arbitrary order and repetition, failing requests as injected faults, object / view creation (slices, indices, iteration, typed views, views of views) and writes through views. After EVERY operation an identity / lattice / bit-array model is compared: same parameters -> identical class, issubclass for ALL pairs of classes created so far, isinstance for all objects, view root / canonical view type / value read through every view, and the code-generation reference of every view names the same bits as the Python alias. Views are also 'formatted like the back end' (RefSpec.simplify) with all views re-checked, ascending ranges are requested as types, and a sample of compiled expressions with view operations is simulated (emitted-code view cases). A sixth of the type histories contain a flood of 40..1100 distinct parametrisations of one family, after which the first, the last and all earlier classes are requested again and must be the identical objects.",
        note="Sequential, model-based end of the technique: the explored nondeterminism is operation order, failed operations and hash seed. Only 'downto' vectors. Trusted: the lattice model written from the statement.",
        technique="seeded history simulation (order of first use, failing requests, hash seed) in forked pristine interpreters; refinement of an identity/lattice/bit-array model after every step",
        ref="6/C13",
    ),
    "C15": dict(
        level="exploration",
        text="Wrapper entities around std.SyncFlag / std.Mailbox (all 16 tx/rx delay pairs, one process or two contexts, consumer as plain function / await receive() / async with / Mailbox.receive, guarded and unguarded set, with and without reset: 262 configurations) are compiled by the real compiler and run in VSIM under seeded producer/consumer agents (unique payloads), stalls of either context through its step condition (uniform and aligned to the delay line right after a set/clear), resets mid hand-over, process order and input offsets. An event-history oracle is evaluated while the run proceeds: every effective set consumed exactly once, in order, payload unmodified; a set while set has no effect; no second effective set while one is outstanding; no consumption without an outstanding set; is_set/is_clear complementary; bounded progress once faults stop. Consumer styles include a consumer that clears in every willing step, a with-body with a conditional return inside a sub-coroutine, and mb.receive() inside an after-executor. Burst consumers (two receives back to back, receive followed by async-with, two Mailbox receives) observe each hand-over on its own port: two observations in one clock are two consumed events.",
        note="Trusted: VSIM, the agents, the history oracle. One clock for both contexts. Bounded progress uses 2*(tx+rx)+8 clocks.",
        technique="deterministic simulation of emitted VHDL with seeded agents and stall/reset fault injection; exactly-once event-history oracle + bounded liveness",
        ref="6/C15",
    ),
    "C14": dict(
        level="exploration",
        text="Wrapper entities around std.Fifo (element types Unsigned/BitVector/Signed/Record/std.Array, capacities N=2..9, one process / two contexts without delay / two contexts with tx/rx delays 0..3, consumer via pop() or await receive(), with and without reset) and std.Stack (N=1..8, NO_OVERFLOW and DROP_OLD) are compiled by the real compiler and run in VSIM. Producer and consumer agents (unique payloads; fill / drain / mixed phases) keep the documented preconditions through the DUT's own full()/empty() view; faults are stalls of either context, resets mid-traffic, process order and input offsets. Oracle: deque / list model checked every clock (order, loss, duplication, push beyond capacity, pop from empty, exact empty/full/size/front, LIFO order, drop-oldest), emitted assertions silent, bounded progress; reach probes (wrap-around, full, push+pop at occupancy 0/1/N-2/N-1) must be non-zero. Every other design first creates a container of the same element type and another depth; consumers also peek with front() before pop().",
        note="Trusted: VSIM, agents, deque/list models. With delays only the unsafe direction of the flags is checked (conservative lag is allowed).",
        technique="deterministic simulation of emitted VHDL with seeded producer/consumer agents and stall/reset faults; per-clock comparison with queue/stack reference models + bounded liveness",
        ref="6/C14",
    ),
    "C16": dict(
        level="exploration",
        text="Wrapper entities around std.wait_for / Waiter.wait_for (constant, run-time, Duration, zero with allow_zero), DelayLine / delayed, continuous_counter, ClockDivider and ToggleSignal (constant and run-time periods, first_state / default_state / tick_at_start / require_enable, enable / disable) and debounce (543 configurations) are compiled by the real compiler and run in VSIM; every output is compared with a per-step reference model after EVERY clock. Schedule and fault space: the instant a wait is reached, run-time values changing after they were sampled, enable/disable instants, bouncing inputs, resets mid-wait, stalls through the step condition (a stalled clock is not a step), process order, input offsets. Every configuration runs below no reset, a synchronous reset and an asynchronous reset, always with a run-time step condition.",
        note="Trusted: VSIM and the per-step models (written from the .pyi documentation, phase conventions calibrated on the unchanged tree). Preconditions (period >= 1) are kept by the stimulus.",
        technique="deterministic simulation of emitted VHDL with seeded reach instants and stall/reset faults; per-clock comparison with cycle-exact reference models",
        ref="6/C16",
    ),
    "C03": dict(
        level="exploration",
        text="Seeded deterministic simulation: generated designs with 1-3 contexts (clocked sequential, concurrent, unclocked sequential with inferred sensitivity) chained through signals; bodies use <<= / .next on whole signals, slices, bits and run-time indexed array elements, @= / .value on Unsigned, Bit and bool variables, ^= / .push, local names that alias or snapshot variables, if/elif/else, match with and without default, for-break chains with and without else, a helper function with returns in nested branches, `with cohdl.always:` and cohdl.always(expr). Compiled by the real CoHDL, executed in VSIM under seeded process order, input offsets (pre/post/glitch) and stimulus (single-input changes for the sensitivity monitor) with the read-before-write monitor on; every output compared every clock with an interpreter of the statement. Clocked contexts optionally carry an (inactive) Reset and a run-time step condition; the grammar includes helpers with several return paths (values and booleans), for-loops ending in return, for-break chains with empty iterations and empty ranges, matches listing every value of their selector, if-expressions over conditions and run-time-indexed bits (also in hoisted always code). A third of the pushes use the explicit-mode form std.assign(target, value, AssignMode.PUSH) that std aggregates forward their ^= to.",
        note="Trusted: VSIM, the reference interpreter (written from the statement; aliasing of plain name bindings calibrated), program size <= 12 statements per context / depth 3, 4-bit data, runs <= 200 clocks. Illegal VHDL is left to C06.",
        technique="deterministic simulation of emitted VHDL (seeded scheduler, input offsets, stimulus) vs executable reference model of the assignment semantics",
        ref="6/C03",
    ),
    "C08": dict(
        level="exploration",
        text="Two halves. Dynamic (the poison fault): VSIM keeps every compiler-generated process variable as a per-activation local, so a read before a write in the same activation raises ReadBeforeWrite in every simulated run of every check (C01, C03, C04, C12, C14-C16, C20). Static: an enumerated placement workload -- 12 constructs (if / elif / else chains, match with and without default, for-break chains with and without else, nested ifs, coroutine state boundaries) x every subset of branches defining a value x optional predefinition x use site (after the construct, in a sibling branch, in a later state) x context kind: 559 cases. Cases the statement says must be rejected have to be rejected by the compiler; accepted cases are simulated with every path forced (value comparison + read-before-write monitor). Definitions also come from calls with two return paths, uses also as match subjects / comparisons, and the read-before-write monitor sweeps generated C03 programs and C01 coroutines.",
        note="Trusted: VSIM's variable scoping (temporaries are activation-local), the expected-reject table written from the statement. Unexpected rejections are counted, not flagged.",
        technique="deterministic simulation with the read-before-write (poison) monitor + enumerated placement cases compiled by the real compiler and simulated with all paths forced",
        ref="6/C08",
    ),
    "C07": dict(
        level="exploration",
        text="Placement workload: 49 hand-written placements of the writers / readers of an object across contexts of every kind (two sequential, sequential + concurrent, two concurrent, whole / slice / bit / element / typed-view targets, ^= and .next forms, always-expressions, sub-entity instance outputs incl. two instances and one instance with two outputs, input ports at top level and inside a sub-entity, variables and intermediates shared between contexts, reset interplay). Placements with more than one writer must be rejected by the compiler; accepted designs are elaborated in VSIM (static driver map per scalar sub-element, process variables confined to their process) and simulated 40 clocks with a reset pulse under seeded stimulus and process order with the dynamic driver monitor (a conflict that only shows when both drivers are active). The catalogue also covers contexts built with the core API, contexts created several times by the same source lines (helpers, loops, std.concurrent_assign), cohdl.always code (run-time indices, variables) and inline VHDL (also nested). A same-name family: distinct objects given the same user name (lower / mixed / upper case, names that differ in case only) keep their own declaration and their single driver.",
        note="Trusted: the placement catalogue and its expected outcomes (counted from the statement), VSIM's driver bookkeeping. Unexpected rejections are counted, not flagged.",
        technique="enumerated writer placements compiled by the real compiler; deterministic simulation of accepted designs with static + dynamic driver monitors",
        ref="6/C07",
    ),
    "C06": dict(
        level="exploration",
        text="VSIM's front end acts as a strict reference elaborator (declared-once per region case-insensitively incl. enumeration literals, reserved words, well-formed identifiers, predefined names the text relies on not hidden, every name resolves, full type and width checking of expressions / assignments / port associations / case choices, out ports not read, distinct choices + others, non-empty sensitivity lists containing every signal read outside a clock guard) plus the dynamic sensitivity monitor. Workloads: (names) one template with 17 naming positions, 1-5 of them drawn from an adversarial pool (reserved words in any case, predefined names, names CoHDL generates itself, case variants, underscore-decorated / non-identifier strings, names equal to another name or to another name plus a numeric suffix, additional_reserved_names); (cluster) 3-9 objects whose names collide case-insensitively or by suffix, driving the uniquifier's search; (piggyback) samples of the designs of every other workload, unclocked contexts simulated with single-input changes; (fixed) probe designs for shapes earlier rounds found.",
        note="Trusted: the elaborator's reading of the LRM for the emitted subset, calibrated on 162 upstream designs. Six root causes found on the unchanged tree are recorded as known findings (port / entity names emitted verbatim, user names not made legal identifiers, predefined names not reserved, empty sensitivity list); violations are attributed to them only through the adversarial name that causes them, anything else is reported.",
        technique="deterministic generation of adversarial designs compiled by the real compiler; strict reference elaboration of the emitted VHDL + seeded simulation with the sensitivity monitor",
        ref="6/C06",
    ),
    "C12": dict(
        level="exploration",
        text="A seeded instantiation tree (depth <= 3, fan-out <= 3, shared templates, node logic combinational / registered / accumulating / slice-assembling / instantiating a leaf through a helper called inside a concurrent context, derived entity classes inheriting their ports) is rendered twice from the same tree: as a hierarchy of entities (actuals: whole signals, parent ports, slices, an instance output connected to a slice of a parent signal with a default) and inline in one architecture. Both are compiled by the real compiler and co-simulated in VSIM under the same stimulus with independent seeded process orders; all outputs must agree after every clock as raw std_logic values. Structural checks on the hierarchical text: emitted interface == declared ports (names, directions, types, order), every template emitted exactly once, sub-entities before their users. Trees reuse templates across depths, pass keyword arguments in seeded order, derive entity classes that add ports, read inout ports and tap a node's own output port; an entity used before it is emitted and an ill-typed port association are violations of this property. Instances created directly in a context take the whole expression result, a slice of a wider result or a typed view of the result as actual.",
        note="Trusted: VSIM, the two renderers of one tree. Trees that use a typed view of an Unsigned signal as actual are emitted as illegal VHDL (known C06 finding) and are not explored.",
        technique="deterministic co-simulation of two replicas (hierarchical vs inline) of generated designs under identical stimulus and independent seeded process orders; replica agreement + structural checks",
        ref="6/C12",
    ),
    "C02": dict(
        level="exploration",
        text="Thin (DESIGN 1): typed expression trees over Bit / BitVector / Unsigned / Signed operands with every operator of the statement (+ - * truncdiv % rem with vector and int operands in either position, & | ^ ~, all comparisons incl. chained, shifts by constant and by Unsigned, @, constant and run-time index, slices, .signed/.unsigned/.bitvector, resize, abs / neg, and / or / not, if-expressions, select_with, any / all) drive one output from a concurrent and one from a clocked context. The operand valuations are applied as a sequence (all valuations when <= 10 operand bits, seeded order; corners + random otherwise) under seeded process order with the read-before-write monitor on: the concurrent output must equal f(current operands) after settling, the clocked output f(operands at the edge). Oracle: an independent integer model of the documented width / extension / wrap rules. Each expression is also compiled into further clocked contexts: run-time-indexed elements bound to names before their index variable changes, a named slice-of-slice view used next to its cast, one operand read through a Signal constructed inside the process; chains of 3-4 comparisons with constants anywhere, boolean constants in any/all, comparisons with Null/Full and widening constructor conversions are part of the grammar. A third of the concatenations take one constant object (Unsigned / Signed / BitVector) as operand.",
        note="What the simulator adds is independence from process order and from the operand history; the search over shapes and values is plain seeded input generation. Preconditions (non-zero divisors, in-range indices) are kept by construction; rejections are counted, not flagged.",
        technique="deterministic simulation of emitted VHDL over seeded operand sequences and process orders vs independent integer model (input generation for shapes/values)",
        ref="6/C02",
    ),
    "C05": dict(
        level="exploration",
        text="Thin: 5643 enumerated cases (source type x target type over Bit and BitVector/Unsigned/Signed[1,2,3,4,7,8], int / Null / Full / bool / str literals) x assignment form (<<=, .next, @=, .value, ^=, .push, slice target, array element, typed-view targets on signals and variables, if-expression merge, function-return merge, initialisation, port connection). Cases the statement says must be rejected have to be rejected by the compiler; accepted cases are simulated over ALL source values under seeded process order and the target must hold the represented value (zero / sign extension, bit copy); an accepted case whose VHDL fails a type/width rule of the elaborator is flagged. Sources are plain ports, typed views of ports, of signals / variables constructed inside the process, and operator results; both branches of every merge (if-expression, multi-return helper) are exercised, also with Null / Full as the other branch. Declarations with an initial value inside the process (Variable[T](src), Signal[T](src), Temporary[T](src)) are assignment forms of the matrix too. Typed constant objects (BitVector[n] / Unsigned[n] / Signed[n] literals of every width) are sources as well.",
        note="The accept/reject half is decided at compile time (plain enumeration). Forms and pairs the statement does not list are 'either rejected or value preserving'. Known finding: equal-width BitVector<->Unsigned/Signed port connections are emitted without type conversion.",
        technique="enumerated conversion cases compiled by the real compiler; accepted ones simulated exhaustively over source values (seeded order / process order) vs the statement's conversion matrix",
        ref="6/C05",
    ),
    "C09": dict(
        level="exploration",
        text="Thin: two replicas per case -- K, the operation on Python-level CoHDL constants (what the compiler folds), and P, the same operation on input ports of a design compiled by the real compiler and simulated in VSIM with the ports held at those values. Type, width and bit pattern must agree (width through an additional BitVector output of the folded width). Operations: + - * truncdiv % rem (vector x vector, vector x int, int x vector), & | ^ ~, comparisons, shifts, neg / abs, resize, typed views, @, index, slice; widths 1..64 so that float shortcuts in the Python-side arithmetic are exercised; 6 valuations per case (corners + random).",
        note="Agreement of replicas is the property; no third model. A fold-time exception or a rejected run-time design is not explored.",
        technique="replica agreement: Python-level constant folding vs deterministic simulation of the emitted logic with ports held at the same values (input generation for cases)",
        ref="6/C09",
    ),
    "C20": dict(
        level="exploration",
        text="A seeded register map from a restricted grammar (MemWord, MemUWord with defaults, Registers with MemField / MemUField at seeded bit offsets, a counter register with read / write notifications, nested RegFile, Array, Memory blocks with all mask modes / unaligned access, AddrRange hooks, Input / Output registers with hardware-side signals, holes, map sizes that are and are not powers of two) is connected through std.axi.axi4_light.connect_addr_map (a quarter of the maps: 2-3 maps behind std.axi.axi4_light.interconnect, unmapped windows answered with DECERR), compiled by the real compiler and driven in VSIM by a seeded AXI4-Lite master with independent per-channel decisions: AW before W, W before AW, same clock; ready early / late / toggling / permanently high; back-to-back and pipelined offers (next AW/W during the B phase); concurrent reads and writes; partial strobes; mapped, hole and out-of-map addresses. Checked every clock: protocol monitors (valid not withdrawn before ready, payload stable, one B per AW+W pair, one R per AR, no response without request, bounded response time while the master is ready, all traffic completes) and a register model (strobed bytes of exactly the addressed register, field kinds, reads return the model value, unmapped accesses change nothing, every access of the counter register counted exactly once).",
        note="Trusted: VSIM, the master BFM (obeys the protocol itself), monitors, register model (a write takes effect with its B handshake; a read overlapping a write to the same address is not value-checked). Alias variables are simulated with plain VHDL semantics here; the C08 side of std.axi's latched address is a known C08 finding.",
        technique="deterministic simulation of emitted VHDL with a seeded AXI4-Lite master (per-channel delay / ready / pipelining schedules); protocol monitors + register reference model",
        ref="6/C20",
    ),
}

NOT_APPLICABLE = {
    "C10": "pure function of program text and constant arguments evaluated at compile time; no schedule, clock, fault or history enters (DESIGN 7)",
    "C17": "pure function of (type composition, value) in stateless library code; simulation could only be the evaluator behind an input generator (DESIGN 7)",
    "C18": "pure functions of (widths, values); no state, time or ordering (DESIGN 7)",
    "C19": "pure function of (formats, styles, raw value) (DESIGN 7)",
}

_ALL = ["C%02d" % i for i in range(1, 21)]
PENDING = {p: "not claimed yet: its simulation check is designed (DESIGN.md section 6) but not built/validated at this commit" for p in _ALL if p not in CHECKS and p not in NOT_APPLICABLE}


def build():
    checks = []
    for pid, c in sorted(CHECKS.items()):
        checks.append(
            {
                "property_id": pid,
                "quick_cmd": f"./check {pid} --tier quick",
                "thorough_cmd": f"./check {pid} --tier thorough",
                "evidence_file": f"/verif/evidence/{pid}.json",
                "replay_cmd_template": f"./check {pid} --replay {{path}}",
                "engine": c.get("engine", "vsim"),
                "level_claimed": {"category": c["level"], "text": c["text"], "design_ref": c["ref"]},
                "level_note": c["note"],
                "technique": c["technique"],
            }
        )
    na = [{"property_id": k, "reason": v} for k, v in sorted({**NOT_APPLICABLE, **PENDING}.items())]
    m = {
        "version": 1,
        "setup_cmd": "./setup.sh",
        "hooks": {
            "guard": "COHDL_VERIF",
            "enable": "none needed: no hooks are installed in /repo; every seam is reached from outside (VSIM owns scheduling, clocks, stimulus and faults; interpreters and hash seeds are controlled by how they are started)",
            "baseline_off_cmd": BASE,
            "source_commits": [],
            "add_only": True,
        },
        "engines": [
            {"name": "vsim", "path": "vf/vsim", "serves_properties": sorted(k for k, c in CHECKS.items() if c.get("engine", "vsim") == "vsim"), "kind_free_text": "deterministic seeded discrete-event simulator for the VHDL subset CoHDL emits (parser, strict elaborator, delta-cycle kernel, std_logic_1164/numeric_std)"},
            {"name": "session", "path": "vf/session", "serves_properties": sorted(k for k, c in CHECKS.items() if c.get("engine") == "session"), "kind_free_text": "compile-history simulator: seeded sequences of accepted/rejected compilations in pristine interpreters per PYTHONHASHSEED"},
        ],
        "checks": checks,
        "notes": "Technique family: deterministic simulation with fault injection. See DESIGN.md.",
        "not_applicable": na,
    }
    with open(os.path.join(HERE, "MANIFEST.json"), "w") as fh:
        json.dump(m, fh, indent=1)
    return m


if __name__ == "__main__":
    m = build()
    try:
        import jsonschema

        jsonschema.validate(m, json.load(open("/root/.vp/MANIFEST.schema.json")))
        print("MANIFEST.json valid;", len(m["checks"]), "checks,", len(m["not_applicable"]), "not applicable")
    except ImportError:
        print("written (jsonschema not available to validate)")
