#!/bin/bash
# offline setup: build the optional mmap cache (performance only), run a smoke test
cd "$(dirname "$0")"
mkdir -p .cache evidence replays
if command -v clang >/dev/null 2>&1; then
  clang -O2 -shared -fPIC -o .cache/mmapcache.so vf/core/mmapcache.c -ldl 2>/dev/null || rm -f .cache/mmapcache.so
elif command -v gcc >/dev/null 2>&1; then
  gcc -O2 -shared -fPIC -o .cache/mmapcache.so vf/core/mmapcache.c -ldl 2>/dev/null || rm -f .cache/mmapcache.so
fi
# the preload must not break the interpreter; drop it if it does
if [ -f .cache/mmapcache.so ]; then
  LD_PRELOAD="$PWD/.cache/mmapcache.so" /venv/bin/python -c "import cohdl" >/dev/null 2>&1 || rm -f .cache/mmapcache.so
fi
./check selftest
