library ieee;
use ieee.std_logic_1164.all;
use ieee.numeric_std.all;


entity E is
  port (
    clk : in std_logic;
    reset : in std_logic;
    axi_awaddr : in unsigned(31 downto 0);
    axi_awprot : in unsigned(2 downto 0);
    axi_awvalid : in std_logic;
    axi_awready : out std_logic;
    axi_wdata : in std_logic_vector(31 downto 0);
    axi_wstrb : in std_logic_vector(3 downto 0);
    axi_wvalid : in std_logic;
    axi_wready : out std_logic;
    axi_bresp : out std_logic_vector(1 downto 0);
    axi_bvalid : out std_logic;
    axi_bready : in std_logic;
    axi_araddr : in unsigned(31 downto 0);
    axi_arprot : in unsigned(2 downto 0);
    axi_arvalid : in std_logic;
    axi_arready : out std_logic;
    axi_rdata : out std_logic_vector(31 downto 0);
    axi_rresp : out std_logic_vector(1 downto 0);
    axi_rvalid : out std_logic;
    axi_rready : in std_logic
    );
end E;


architecture arch_E of E is
  function cohdl_bool_to_std_logic(inp: boolean) return std_logic is
  begin
    if inp then
      return('1');
    else
      return('0');
    end if;
  end function cohdl_bool_to_std_logic;
  signal buffer_axi_awready : std_logic := '0';
  signal buffer_axi_wready : std_logic := '0';
  signal buffer_axi_bresp : std_logic_vector(1 downto 0) := "00";
  signal buffer_axi_bvalid : std_logic := '0';
  signal buffer_axi_arready : std_logic := '0';
  signal buffer_axi_rdata : std_logic_vector(31 downto 0) := "00000000000000000000000000000000";
  signal buffer_axi_rresp : std_logic_vector(1 downto 0) := "00";
  signal buffer_axi_rvalid : std_logic := '0';
  type state_background_read is (state_0, state_1, state_2);
  signal s_background_read : state_background_read := state_0;
  signal arready : std_logic := '0';
  signal rdata : std_logic_vector(31 downto 0) := "00000000000000000000000000000000";
  signal rresp : std_logic_vector(1 downto 0) := "00";
  signal rvalid : std_logic := '0';
  signal arvalid : std_logic := '0';
  signal rready : std_logic := '0';
  type state_background_write is (state_0, state_1, state_2);
  signal s_background_write : state_background_write := state_0;
  signal awready : std_logic := '0';
  signal wready : std_logic := '0';
  signal bresp : std_logic_vector(1 downto 0) := "00";
  signal bvalid : std_logic := '0';
  signal addr : std_logic_vector(31 downto 0);
  signal awaddr : std_logic_vector(31 downto 0) := "00000000000000000000000000000000";
  signal prot : std_logic_vector(2 downto 0);
  signal awprot : std_logic_vector(2 downto 0) := "000";
  signal data : std_logic_vector(31 downto 0);
  signal wdata : std_logic_vector(31 downto 0) := "00000000000000000000000000000000";
  signal strb : std_logic_vector(3 downto 0);
  signal wstrb : std_logic_vector(3 downto 0) := "0000";
  signal awvalid : std_logic := '0';
  signal wvalid : std_logic := '0';
  signal bready : std_logic := '0';
  signal a_arvalid : std_logic := '0';
  signal a_araddr : std_logic_vector(3 downto 0) := "0000";
  signal a_arprot : std_logic_vector(2 downto 0) := "000";
  signal a_rready : std_logic := '0';
  signal a_awvalid : std_logic := '0';
  signal a_awaddr : std_logic_vector(3 downto 0) := "0000";
  signal a_awprot : std_logic_vector(2 downto 0) := "000";
  signal a_wvalid : std_logic := '0';
  signal a_wdata : std_logic_vector(31 downto 0) := "00000000000000000000000000000000";
  signal a_wstrb : std_logic_vector(3 downto 0) := "0000";
  signal a_bready : std_logic := '0';
  signal b_arvalid : std_logic := '0';
  signal b_araddr : std_logic_vector(3 downto 0) := "0000";
  signal b_arprot : std_logic_vector(2 downto 0) := "000";
  signal b_rready : std_logic := '0';
  signal b_awvalid : std_logic := '0';
  signal b_awaddr : std_logic_vector(3 downto 0) := "0000";
  signal b_awprot : std_logic_vector(2 downto 0) := "000";
  signal b_wvalid : std_logic := '0';
  signal b_wdata : std_logic_vector(31 downto 0) := "00000000000000000000000000000000";
  signal b_wstrb : std_logic_vector(3 downto 0) := "0000";
  signal b_bready : std_logic := '0';
  signal araddr : std_logic_vector(31 downto 0) := "00000000000000000000000000000000";
  signal arprot : std_logic_vector(2 downto 0) := "000";
  signal sig : std_logic := '0';
  signal a_arready : std_logic := '0';
  signal a_rvalid : std_logic := '0';
  signal a_rdata : std_logic_vector(31 downto 0) := "00000000000000000000000000000000";
  signal a_rresp : std_logic_vector(1 downto 0) := "00";
  signal sig1 : std_logic := '0';
  signal a_awready : std_logic := '0';
  signal a_wready : std_logic := '0';
  signal a_bvalid : std_logic := '0';
  signal a_bresp : std_logic_vector(1 downto 0) := "00";
  signal sig2 : std_logic := '0';
  signal b_arready : std_logic := '0';
  signal b_rvalid : std_logic := '0';
  signal b_rdata : std_logic_vector(31 downto 0) := "00000000000000000000000000000000";
  signal b_rresp : std_logic_vector(1 downto 0) := "00";
  signal sig3 : std_logic := '0';
  signal b_awready : std_logic := '0';
  signal b_wready : std_logic := '0';
  signal b_bvalid : std_logic := '0';
  signal b_bresp : std_logic_vector(1 downto 0) := "00";
  signal sig4 : std_logic := '0';
  signal sig5 : std_logic := '0';
  type state_proc_read is (state_0, state_1);
  signal s_proc_read : state_proc_read := state_0;
  type state_proc_write is (state_0, state_1);
  signal s_proc_write : state_proc_write := state_0;
  type state_proc_read1 is (state_0, state_1, state_2);
  signal s_proc_read1 : state_proc_read1 := state_0;
  signal old : std_logic_vector(31 downto 0) := "00000000000000000000000000000000";
  signal old1 : std_logic_vector(31 downto 0) := "00000000000000000000000000000000";
  type state_proc_write1 is (state_0, state_1, state_2);
  signal s_proc_write1 : state_proc_write1 := state_0;
  signal addr1 : std_logic_vector(3 downto 0);
  signal prot1 : std_logic_vector(2 downto 0);
  signal data1 : std_logic_vector(31 downto 0);
  signal strb1 : std_logic_vector(3 downto 0);
  type state_proc_read2 is (state_0, state_1, state_2);
  signal s_proc_read2 : state_proc_read2 := state_0;
  signal old2 : std_logic_vector(31 downto 0) := "00000000000000000000000000000000";
  signal old3 : std_logic_vector(31 downto 0) := "00000000000000000000000000000000";
  type state_proc_write2 is (state_0, state_1, state_2);
  signal s_proc_write2 : state_proc_write2 := state_0;
  signal addr2 : std_logic_vector(3 downto 0);
  signal prot2 : std_logic_vector(2 downto 0);
  signal data2 : std_logic_vector(31 downto 0);
  signal strb2 : std_logic_vector(3 downto 0);
begin
  
  -- CONCURRENT BLOCK (buffer assignment)
  axi_awready <= buffer_axi_awready;
  axi_wready <= buffer_axi_wready;
  axi_bresp <= buffer_axi_bresp;
  axi_bvalid <= buffer_axi_bvalid;
  axi_arready <= buffer_axi_arready;
  axi_rdata <= buffer_axi_rdata;
  axi_rresp <= buffer_axi_rresp;
  axi_rvalid <= buffer_axi_rvalid;
  

  background_read: process(clk)
    variable temp : boolean;
  begin
    if rising_edge(clk) then
      temp := reset = '1';
      if temp then
        s_background_read <= state_0;
        arready <= '0';
        rdata <= "00000000000000000000000000000000";
        rresp <= "00";
        rvalid <= '0';
      else
        case s_background_read is
          when state_0 =>
            s_background_read <= state_1;
            arready <= '1';
          when state_1 =>
            if arvalid = '1' then
              s_background_read <= state_2;
              arready <= '0';
              rdata <= "00000000000000000000000000000000";
              rresp <= "11";
              rvalid <= '1';
            end if;
          when state_2 =>
            if rready = '1' then
              s_background_read <= state_0;
              rvalid <= '0';
            end if;
          when others =>
            null;
        end case;
      end if;
    end if;
  end process;
  

  background_write: process(clk)
    variable temp : boolean;
    variable var : std_logic;
    variable var1 : std_logic;
    variable temp1 : std_logic;
    variable temp2 : boolean;
    variable temp3 : std_logic;
    variable temp4 : boolean;
    variable temp5 : std_logic;
    variable temp6 : std_logic;
    variable temp7 : std_logic;
    variable temp8 : std_logic;
    variable temp9 : std_logic;
    variable temp10 : boolean;
  begin
    if rising_edge(clk) then
      temp := reset = '1';
      if temp then
        s_background_write <= state_0;
        awready <= '0';
        wready <= '0';
        bresp <= "00";
        bvalid <= '0';
      else
        case s_background_write is
          when state_0 =>
            s_background_write <= state_1;
            var := '0';
            var1 := '0';
            awready <= '1';
            wready <= '1';
          when state_1 =>
            temp1 := not (var);
            temp2 := temp1 = '1';
            if temp2 then
              addr <= awaddr;
              prot <= awprot;
            end if;
            temp3 := not (var1);
            temp4 := temp3 = '1';
            if temp4 then
              data <= wdata;
              strb <= wstrb;
            end if;
            temp5 := (var) or (awvalid);
            var := temp5;
            temp6 := (var1) or (wvalid);
            var1 := temp6;
            temp7 := not (var);
            awready <= temp7;
            temp8 := not (var1);
            wready <= temp8;
            temp9 := (var) and (var1);
            temp10 := temp9 = '1';
            if temp10 then
              s_background_write <= state_2;
              bresp <= "11";
              bvalid <= '1';
            else
              s_background_write <= state_1;
            end if;
          when state_2 =>
            if bready = '1' then
              s_background_write <= state_0;
              bvalid <= '0';
            end if;
          when others =>
            null;
        end case;
      end if;
    end if;
  end process;
  

  proc_connect: process(sig, a_arready, axi_arvalid, axi_araddr, axi_arprot, axi_rready, a_rvalid, a_rdata, a_rresp, sig1, a_awready, axi_awvalid, axi_awaddr, axi_awprot, a_wready, axi_wvalid, axi_wdata, axi_wstrb, axi_bready, a_bvalid, a_bresp, sig2, b_arready, b_rvalid, b_rdata, b_rresp, sig3, b_awready, b_wready, b_bvalid, b_bresp, sig4, arready, rvalid, rdata, rresp, sig5, awready, wready, bvalid, bresp)
    variable temp : boolean;
    variable temp1 : boolean;
    variable temp2 : boolean;
    variable temp3 : boolean;
    variable temp4 : boolean;
    variable temp5 : boolean;
  begin
    buffer_axi_arready <= '0';
    a_arvalid <= '0';
    a_araddr <= "0000";
    a_arprot <= "000";
    a_rready <= '0';
    buffer_axi_rvalid <= '0';
    buffer_axi_rdata <= "00000000000000000000000000000000";
    buffer_axi_rresp <= "00";
    buffer_axi_awready <= '0';
    a_awvalid <= '0';
    a_awaddr <= "0000";
    a_awprot <= "000";
    buffer_axi_wready <= '0';
    a_wvalid <= '0';
    a_wdata <= "00000000000000000000000000000000";
    a_wstrb <= "0000";
    a_bready <= '0';
    buffer_axi_bvalid <= '0';
    buffer_axi_bresp <= "00";
    b_arvalid <= '0';
    b_araddr <= "0000";
    b_arprot <= "000";
    b_rready <= '0';
    b_awvalid <= '0';
    b_awaddr <= "0000";
    b_awprot <= "000";
    b_wvalid <= '0';
    b_wdata <= "00000000000000000000000000000000";
    b_wstrb <= "0000";
    b_bready <= '0';
    arvalid <= '0';
    araddr <= "00000000000000000000000000000000";
    arprot <= "000";
    rready <= '0';
    awvalid <= '0';
    awaddr <= "00000000000000000000000000000000";
    awprot <= "000";
    wvalid <= '0';
    wdata <= "00000000000000000000000000000000";
    wstrb <= "0000";
    bready <= '0';
    temp := sig = '1';
    if temp then
      buffer_axi_arready <= a_arready;
      a_arvalid <= axi_arvalid;
      a_araddr <= std_logic_vector(unsigned(axi_araddr(3 downto 0)));
      a_arprot <= std_logic_vector(axi_arprot);
      a_rready <= axi_rready;
      buffer_axi_rvalid <= a_rvalid;
      buffer_axi_rdata <= a_rdata;
      buffer_axi_rresp <= a_rresp;
    end if;
    temp1 := sig1 = '1';
    if temp1 then
      buffer_axi_awready <= a_awready;
      a_awvalid <= axi_awvalid;
      a_awaddr <= std_logic_vector(unsigned(axi_awaddr(3 downto 0)));
      a_awprot <= std_logic_vector(axi_awprot);
      buffer_axi_wready <= a_wready;
      a_wvalid <= axi_wvalid;
      a_wdata <= axi_wdata;
      a_wstrb <= axi_wstrb;
      a_bready <= axi_bready;
      buffer_axi_bvalid <= a_bvalid;
      buffer_axi_bresp <= a_bresp;
    end if;
    temp2 := sig2 = '1';
    if temp2 then
      buffer_axi_arready <= b_arready;
      b_arvalid <= axi_arvalid;
      b_araddr <= std_logic_vector(unsigned(axi_araddr(3 downto 0)));
      b_arprot <= std_logic_vector(axi_arprot);
      b_rready <= axi_rready;
      buffer_axi_rvalid <= b_rvalid;
      buffer_axi_rdata <= b_rdata;
      buffer_axi_rresp <= b_rresp;
    end if;
    temp3 := sig3 = '1';
    if temp3 then
      buffer_axi_awready <= b_awready;
      b_awvalid <= axi_awvalid;
      b_awaddr <= std_logic_vector(unsigned(axi_awaddr(3 downto 0)));
      b_awprot <= std_logic_vector(axi_awprot);
      buffer_axi_wready <= b_wready;
      b_wvalid <= axi_wvalid;
      b_wdata <= axi_wdata;
      b_wstrb <= axi_wstrb;
      b_bready <= axi_bready;
      buffer_axi_bvalid <= b_bvalid;
      buffer_axi_bresp <= b_bresp;
    end if;
    temp4 := sig4 = '1';
    if temp4 then
      buffer_axi_arready <= arready;
      arvalid <= axi_arvalid;
      araddr <= std_logic_vector(unsigned(axi_araddr(31 downto 0)));
      arprot <= std_logic_vector(axi_arprot);
      rready <= axi_rready;
      buffer_axi_rvalid <= rvalid;
      buffer_axi_rdata <= rdata;
      buffer_axi_rresp <= rresp;
    end if;
    temp5 := sig5 = '1';
    if temp5 then
      buffer_axi_awready <= awready;
      awvalid <= axi_awvalid;
      awaddr <= std_logic_vector(unsigned(axi_awaddr(31 downto 0)));
      awprot <= std_logic_vector(axi_awprot);
      buffer_axi_wready <= wready;
      wvalid <= axi_wvalid;
      wdata <= axi_wdata;
      wstrb <= axi_wstrb;
      bready <= axi_bready;
      buffer_axi_bvalid <= bvalid;
      buffer_axi_bresp <= bresp;
    end if;
  end process;
  

  proc_read: process(clk)
    variable temp : boolean;
    variable temp1 : boolean;
    variable temp2 : boolean;
    variable temp3 : boolean;
    variable temp4 : boolean;
    variable temp5 : boolean;
    variable temp6 : boolean;
    variable temp7 : std_logic;
  begin
    if rising_edge(clk) then
      temp := reset = '1';
      if temp then
        s_proc_read <= state_0;
        sig4 <= '0';
        sig <= '0';
        sig2 <= '0';
      else
        case s_proc_read is
          when state_0 =>
            if axi_arvalid = '1' then
              s_proc_read <= state_1;
              sig4 <= '1';
              temp1 := (axi_araddr >= 0);
              temp2 := (axi_araddr <= 15);
              temp3 := temp1 and temp2;
              if temp3 then
                sig4 <= '0';
                sig <= '1';
              end if;
              temp4 := (axi_araddr >= 16);
              temp5 := (axi_araddr <= 31);
              temp6 := temp4 and temp5;
              if temp6 then
                sig4 <= '0';
                sig2 <= '1';
              end if;
            end if;
          when state_1 =>
            temp7 := (buffer_axi_rvalid) and (axi_rready);
            if temp7 = '1' then
              s_proc_read <= state_0;
              sig <= '0';
              sig2 <= '0';
              sig4 <= '0';
            end if;
          when others =>
            null;
        end case;
      end if;
    end if;
  end process;
  

  proc_write: process(clk)
    variable temp : boolean;
    variable temp1 : boolean;
    variable temp2 : boolean;
    variable temp3 : boolean;
    variable temp4 : boolean;
    variable temp5 : boolean;
    variable temp6 : boolean;
    variable temp7 : std_logic;
  begin
    if rising_edge(clk) then
      temp := reset = '1';
      if temp then
        s_proc_write <= state_0;
        sig5 <= '0';
        sig1 <= '0';
        sig3 <= '0';
      else
        case s_proc_write is
          when state_0 =>
            if axi_awvalid = '1' then
              s_proc_write <= state_1;
              sig5 <= '1';
              temp1 := (axi_awaddr >= 0);
              temp2 := (axi_awaddr <= 15);
              temp3 := temp1 and temp2;
              if temp3 then
                sig5 <= '0';
                sig1 <= '1';
              end if;
              temp4 := (axi_awaddr >= 16);
              temp5 := (axi_awaddr <= 31);
              temp6 := temp4 and temp5;
              if temp6 then
                sig5 <= '0';
                sig3 <= '1';
              end if;
            end if;
          when state_1 =>
            temp7 := (buffer_axi_bvalid) and (axi_bready);
            if temp7 = '1' then
              s_proc_write <= state_0;
              sig1 <= '0';
              sig3 <= '0';
              sig5 <= '0';
            end if;
          when others =>
            null;
        end case;
      end if;
    end if;
  end process;
  

  proc_read1: process(clk)
    variable temp : boolean;
    variable data3 : std_logic_vector(31 downto 0);
    variable temp1 : boolean;
    variable temp2 : boolean;
  begin
    if rising_edge(clk) then
      temp := reset = '1';
      if temp then
        s_proc_read1 <= state_0;
        a_arready <= '0';
        a_rdata <= "00000000000000000000000000000000";
        a_rresp <= "00";
        a_rvalid <= '0';
      else
        case s_proc_read1 is
          when state_0 =>
            s_proc_read1 <= state_1;
            a_arready <= '1';
          when state_1 =>
            if a_arvalid = '1' then
              s_proc_read1 <= state_2;
              a_arready <= '0';
              data3 := "00000000000000000000000000000000";
              temp1 := (unsigned(std_logic_vector(a_araddr(3 downto 2))) = 0);
              if temp1 then
                data3 := old;
              else
                temp2 := (unsigned(std_logic_vector(a_araddr(3 downto 2))) = 1);
                if temp2 then
                  data3 := old1;
                end if;
              end if;
              a_rdata <= data3;
              a_rresp <= "00";
              a_rvalid <= '1';
            end if;
          when state_2 =>
            if a_rready = '1' then
              a_rvalid <= '0';
              s_proc_read1 <= state_1;
              a_arready <= '1';
            end if;
          when others =>
            null;
        end case;
      end if;
    end if;
  end process;
  

  proc_write1: process(clk)
    variable temp : boolean;
    variable var : std_logic;
    variable var1 : std_logic;
    variable temp1 : std_logic;
    variable temp2 : boolean;
    variable alias1 : std_logic_vector(3 downto 0);
    variable temp3 : std_logic;
    variable temp4 : boolean;
    variable alias2 : std_logic_vector(31 downto 0);
    variable alias3 : std_logic_vector(3 downto 0);
    variable temp5 : std_logic;
    variable temp6 : std_logic;
    variable temp7 : std_logic;
    variable temp8 : std_logic;
    variable temp9 : std_logic;
    variable temp10 : boolean;
    variable temp11 : std_logic_vector(1 downto 0);
    variable temp12 : std_logic_vector(3 downto 0);
    variable first : std_logic_vector(7 downto 0);
    variable temp13 : std_logic_vector(1 downto 0);
    variable temp14 : std_logic_vector(3 downto 0);
    variable first1 : std_logic_vector(7 downto 0);
    variable temp15 : std_logic_vector(1 downto 0);
    variable temp16 : std_logic_vector(3 downto 0);
    variable first2 : std_logic_vector(7 downto 0);
    variable temp17 : std_logic_vector(1 downto 0);
    variable temp18 : std_logic_vector(3 downto 0);
    variable first3 : std_logic_vector(7 downto 0);
    variable a : std_logic_vector(15 downto 0);
    variable b : std_logic_vector(15 downto 0);
    variable val : std_logic_vector(31 downto 0);
    variable val1 : std_logic_vector(31 downto 0);
    variable temp19 : boolean;
    variable temp20 : std_logic_vector(31 downto 0);
    variable temp21 : std_logic_vector(31 downto 0);
    variable temp22 : std_logic_vector(31 downto 0);
    variable temp23 : std_logic_vector(31 downto 0);
    variable temp24 : boolean;
    variable temp25 : std_logic_vector(31 downto 0);
    variable temp26 : std_logic_vector(31 downto 0);
    variable temp27 : std_logic_vector(31 downto 0);
    variable temp28 : std_logic_vector(31 downto 0);
  begin
    if rising_edge(clk) then
      temp := reset = '1';
      if temp then
        s_proc_write1 <= state_0;
        a_awready <= '0';
        a_wready <= '0';
        old <= "00000000000000000000000000000000";
        old1 <= "00000000000000000000000000000000";
        a_bresp <= "00";
        a_bvalid <= '0';
      else
        case s_proc_write1 is
          when state_0 =>
            s_proc_write1 <= state_1;
            var := '0';
            var1 := '0';
            a_awready <= '1';
            a_wready <= '1';
          when state_1 =>
            temp1 := not (var);
            temp2 := temp1 = '1';
            if temp2 then
              alias1 := a_awaddr;
              addr1 <= a_awaddr;
              prot1 <= a_awprot;
            end if;
            temp3 := not (var1);
            temp4 := temp3 = '1';
            if temp4 then
              alias2 := a_wdata;
              data1 <= a_wdata;
              alias3 := a_wstrb;
              strb1 <= a_wstrb;
            end if;
            temp5 := (var) or (a_awvalid);
            var := temp5;
            temp6 := (var1) or (a_wvalid);
            var1 := temp6;
            temp7 := not (var);
            a_awready <= temp7;
            temp8 := not (var1);
            a_wready <= temp8;
            temp9 := (var) and (var1);
            temp10 := temp9 = '1';
            if temp10 then
              s_proc_write1 <= state_2;
              temp11 := (alias3(0)) & (alias3(0));
              temp12 := (temp11) & (temp11);
              first := (temp12) & (temp12);
              temp13 := (alias3(1)) & (alias3(1));
              temp14 := (temp13) & (temp13);
              first1 := (temp14) & (temp14);
              temp15 := (alias3(2)) & (alias3(2));
              temp16 := (temp15) & (temp15);
              first2 := (temp16) & (temp16);
              temp17 := (alias3(3)) & (alias3(3));
              temp18 := (temp17) & (temp17);
              first3 := (temp18) & (temp18);
              a := (first3) & (first2);
              b := (first1) & (first);
              val := (a) & (b);
              val1 := val;
              temp19 := (unsigned(std_logic_vector(alias1(3 downto 2))) = 0);
              if temp19 then
                temp20 := not (val1);
                temp21 := (old) and (temp20);
                temp22 := (alias2) and (val1);
                temp23 := (temp21) or (temp22);
                old <= temp23;
              else
                temp24 := (unsigned(std_logic_vector(alias1(3 downto 2))) = 1);
                if temp24 then
                  temp25 := not (val1);
                  temp26 := (old1) and (temp25);
                  temp27 := (alias2) and (val1);
                  temp28 := (temp26) or (temp27);
                  old1 <= temp28;
                end if;
              end if;
              a_bresp <= "00";
              a_bvalid <= '1';
            else
              s_proc_write1 <= state_1;
            end if;
          when state_2 =>
            if a_bready = '1' then
              a_bvalid <= '0';
              s_proc_write1 <= state_1;
              var := '0';
              var1 := '0';
              a_awready <= '1';
              a_wready <= '1';
            end if;
          when others =>
            null;
        end case;
      end if;
    end if;
  end process;
  

  proc_read2: process(clk)
    variable temp : boolean;
    variable data3 : std_logic_vector(31 downto 0);
    variable temp1 : boolean;
    variable temp2 : boolean;
  begin
    if rising_edge(clk) then
      temp := reset = '1';
      if temp then
        s_proc_read2 <= state_0;
        b_arready <= '0';
        b_rdata <= "00000000000000000000000000000000";
        b_rresp <= "00";
        b_rvalid <= '0';
      else
        case s_proc_read2 is
          when state_0 =>
            s_proc_read2 <= state_1;
            b_arready <= '1';
          when state_1 =>
            if b_arvalid = '1' then
              s_proc_read2 <= state_2;
              b_arready <= '0';
              data3 := "00000000000000000000000000000000";
              temp1 := (unsigned(std_logic_vector(b_araddr(3 downto 2))) = 0);
              if temp1 then
                data3 := old2;
              else
                temp2 := (unsigned(std_logic_vector(b_araddr(3 downto 2))) = 2);
                if temp2 then
                  data3 := old3;
                end if;
              end if;
              b_rdata <= data3;
              b_rresp <= "00";
              b_rvalid <= '1';
            end if;
          when state_2 =>
            if b_rready = '1' then
              b_rvalid <= '0';
              s_proc_read2 <= state_1;
              b_arready <= '1';
            end if;
          when others =>
            null;
        end case;
      end if;
    end if;
  end process;
  

  proc_write2: process(clk)
    variable temp : boolean;
    variable var : std_logic;
    variable var1 : std_logic;
    variable temp1 : std_logic;
    variable temp2 : boolean;
    variable alias1 : std_logic_vector(3 downto 0);
    variable temp3 : std_logic;
    variable temp4 : boolean;
    variable alias2 : std_logic_vector(31 downto 0);
    variable alias3 : std_logic_vector(3 downto 0);
    variable temp5 : std_logic;
    variable temp6 : std_logic;
    variable temp7 : std_logic;
    variable temp8 : std_logic;
    variable temp9 : std_logic;
    variable temp10 : boolean;
    variable temp11 : std_logic_vector(1 downto 0);
    variable temp12 : std_logic_vector(3 downto 0);
    variable first : std_logic_vector(7 downto 0);
    variable temp13 : std_logic_vector(1 downto 0);
    variable temp14 : std_logic_vector(3 downto 0);
    variable first1 : std_logic_vector(7 downto 0);
    variable temp15 : std_logic_vector(1 downto 0);
    variable temp16 : std_logic_vector(3 downto 0);
    variable first2 : std_logic_vector(7 downto 0);
    variable temp17 : std_logic_vector(1 downto 0);
    variable temp18 : std_logic_vector(3 downto 0);
    variable first3 : std_logic_vector(7 downto 0);
    variable a : std_logic_vector(15 downto 0);
    variable b : std_logic_vector(15 downto 0);
    variable val : std_logic_vector(31 downto 0);
    variable val1 : std_logic_vector(31 downto 0);
    variable temp19 : boolean;
    variable temp20 : std_logic_vector(31 downto 0);
    variable temp21 : std_logic_vector(31 downto 0);
    variable temp22 : std_logic_vector(31 downto 0);
    variable temp23 : std_logic_vector(31 downto 0);
    variable temp24 : boolean;
    variable temp25 : std_logic_vector(31 downto 0);
    variable temp26 : std_logic_vector(31 downto 0);
    variable temp27 : std_logic_vector(31 downto 0);
    variable temp28 : std_logic_vector(31 downto 0);
  begin
    if rising_edge(clk) then
      temp := reset = '1';
      if temp then
        s_proc_write2 <= state_0;
        b_awready <= '0';
        b_wready <= '0';
        old2 <= "00000000000000000000000000000000";
        old3 <= "00000000000000000000000000000000";
        b_bresp <= "00";
        b_bvalid <= '0';
      else
        case s_proc_write2 is
          when state_0 =>
            s_proc_write2 <= state_1;
            var := '0';
            var1 := '0';
            b_awready <= '1';
            b_wready <= '1';
          when state_1 =>
            temp1 := not (var);
            temp2 := temp1 = '1';
            if temp2 then
              alias1 := b_awaddr;
              addr2 <= b_awaddr;
              prot2 <= b_awprot;
            end if;
            temp3 := not (var1);
            temp4 := temp3 = '1';
            if temp4 then
              alias2 := b_wdata;
              data2 <= b_wdata;
              alias3 := b_wstrb;
              strb2 <= b_wstrb;
            end if;
            temp5 := (var) or (b_awvalid);
            var := temp5;
            temp6 := (var1) or (b_wvalid);
            var1 := temp6;
            temp7 := not (var);
            b_awready <= temp7;
            temp8 := not (var1);
            b_wready <= temp8;
            temp9 := (var) and (var1);
            temp10 := temp9 = '1';
            if temp10 then
              s_proc_write2 <= state_2;
              temp11 := (alias3(0)) & (alias3(0));
              temp12 := (temp11) & (temp11);
              first := (temp12) & (temp12);
              temp13 := (alias3(1)) & (alias3(1));
              temp14 := (temp13) & (temp13);
              first1 := (temp14) & (temp14);
              temp15 := (alias3(2)) & (alias3(2));
              temp16 := (temp15) & (temp15);
              first2 := (temp16) & (temp16);
              temp17 := (alias3(3)) & (alias3(3));
              temp18 := (temp17) & (temp17);
              first3 := (temp18) & (temp18);
              a := (first3) & (first2);
              b := (first1) & (first);
              val := (a) & (b);
              val1 := val;
              temp19 := (unsigned(std_logic_vector(alias1(3 downto 2))) = 0);
              if temp19 then
                temp20 := not (val1);
                temp21 := (old2) and (temp20);
                temp22 := (alias2) and (val1);
                temp23 := (temp21) or (temp22);
                old2 <= temp23;
              else
                temp24 := (unsigned(std_logic_vector(alias1(3 downto 2))) = 2);
                if temp24 then
                  temp25 := not (val1);
                  temp26 := (old3) and (temp25);
                  temp27 := (alias2) and (val1);
                  temp28 := (temp26) or (temp27);
                  old3 <= temp28;
                end if;
              end if;
              b_bresp <= "00";
              b_bvalid <= '1';
            else
              s_proc_write2 <= state_1;
            end if;
          when state_2 =>
            if b_bready = '1' then
              b_bvalid <= '0';
              s_proc_write2 <= state_1;
              var := '0';
              var1 := '0';
              b_awready <= '1';
              b_wready <= '1';
            end if;
          when others =>
            null;
        end case;
      end if;
    end if;
  end process;
end architecture arch_E;